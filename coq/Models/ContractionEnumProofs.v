(* C16 -- with the leak guard of _optimize_contractions every enumerated scheme
   (hence the selected one) is well-formed for consistent requests *)
From Coq Require Import ZArith NArith List Bool Lia PeanoNat Permutation.
From ADC Require Import Core.Scalar Core.Index Core.Expr Models.Contraction Models.ContractionProofs.
Import ListNotations.

(* ------------------------------------------------------------------ *)
(* generic facts *)
Lemma icount_perm x a b : Permutation a b -> icount x a = icount x b.
Proof. induction 1; simpl; try lia. Qed.
Lemma icount_zero x l : ~ In x l -> icount x l = 0.
Proof. intros H. destruct (icount x l) eqn:E; [reflexivity|]. exfalso. apply H, icount_In. lia. Qed.

Lemma pool_idx_perm_full a b : Permutation a b -> Permutation (pool_idx a) (pool_idx b).
Proof. unfold pool_idx. induction 1; simpl.
  - reflexivity.
  - apply Permutation_app_head; assumption.
  - rewrite !app_assoc. apply Permutation_app_tail. apply Permutation_app_comm.
  - etransitivity; eauto. Qed.

Lemma existsb_perm {A} (f : A -> bool) a b : Permutation a b -> existsb f a = existsb f b.
Proof. induction 1; simpl; try congruence.
  destruct (f x), (f y); reflexivity. Qed.

Lemma map_nth_seq {A} (l : list A) d : map (fun p => nth p l d) (seq 0 (length l)) = l.
Proof. induction l as [|x r IH]; simpl; [reflexivity|]. f_equal.
  rewrite <- seq_shift, map_map. exact IH. Qed.

Lemma nmem_In x l : nmem x l = true <-> In x l.
Proof. unfold nmem. rewrite existsb_exists. split.
  - intros [y [H1 H2]]. apply Nat.eqb_eq in H2. subst; exact H1.
  - intros H. exists x. split; [exact H|apply Nat.eqb_refl]. Qed.

(* ------------------------------------------------------------------ *)
(* removal from permuted pools *)
Lemma remove_obj_In o pool : In o pool -> exists r, remove_obj o pool = Some r.
Proof. induction pool as [|p q IH]; simpl; intros H; [tauto|].
  destruct (obj_eqb o p) eqn:E; [eexists; reflexivity|].
  destruct H as [H|H]; [subst; rewrite obj_eqb_refl in E; discriminate|].
  destruct (IH H) as [r Hr]. rewrite Hr. eexists; reflexivity. Qed.

Lemma remove_objs_of_perm os : forall pool rest, Permutation pool (os ++ rest) ->
  exists r, remove_objs os pool = Some r /\ Permutation r rest.
Proof. induction os as [|o q IH]; intros pool rest HP; simpl.
  - exists pool. split; [reflexivity|exact HP].
  - assert (Hin : In o pool).
    { eapply Permutation_in; [apply Permutation_sym; exact HP|]. left; reflexivity. }
    destruct (remove_obj_In o pool Hin) as [r1 Hr1]. rewrite Hr1.
    apply IH. pose proof (remove_obj_perm _ _ _ Hr1) as H1.
    apply (Permutation_cons_inv (a := o)). rewrite <- H1. exact HP. Qed.

(* ------------------------------------------------------------------ *)
(* wf_steps: introduction rule and invariance under permutation of the pool *)
Lemma wf_steps_intro tg pool c rest pool' :
  remove_objs (c_objs c) pool = Some pool' -> step_ok tg c pool' ->
  match rest with
  | [] => pool' = [] /\ c_target c = tg
  | _ => wf_steps tg ((NContr (c_id c), c_target c) :: pool') rest = true
  end -> wf_steps tg pool (c :: rest) = true.
Proof. intros E [Hloc [Hout Hname]] Hrest. simpl. rewrite E, Hloc, Hname. simpl.
  assert (H1 : forallb (fun x => negb (imem x tg) && negb (imem x (pool_idx pool'))) (c_contracted c) = true).
  { apply forallb_forall. intros x Hx. destruct (Hout x Hx) as [Ha Hb].
    apply andb_true_iff. split; apply negb_true_iff, imem_nIn; assumption. }
  rewrite H1. simpl. destruct rest as [|d rest'].
  - destruct Hrest as [-> ->]. apply ilist_eqb_eq. reflexivity.
  - exact Hrest. Qed.

Lemma step_ok_perm tg c p1 p2 : Permutation p1 p2 -> step_ok tg c p1 -> step_ok tg c p2.
Proof. intros HP [Hloc [Hout Hname]]. split; [exact Hloc|]. split.
  - intros x Hx. destruct (Hout x Hx) as [Ha Hb]. split; [exact Ha|].
    intros Hc. apply Hb. apply (pool_idx_perm _ _ x HP). exact Hc.
  - rewrite <- (existsb_perm _ _ _ HP). exact Hname. Qed.

Lemma wf_steps_perm tg s : forall p1 p2, Permutation p1 p2 ->
  wf_steps tg p1 s = true -> wf_steps tg p2 s = true.
Proof. induction s as [|c rest IH]; intros p1 p2 HP H; [discriminate|].
  destruct (wf_steps_step _ _ _ _ H) as [pool1 [HP1 [Hok Hrest]]].
  assert (HP2 : Permutation p2 (c_objs c ++ pool1)).
  { rewrite <- HP. exact HP1. }
  destruct (remove_objs_of_perm _ _ _ HP2) as [r2 [E2 Hr2]].
  apply (wf_steps_intro tg p2 c rest r2 E2).
  - apply (step_ok_perm tg c pool1 r2); [apply Permutation_sym; exact Hr2|exact Hok].
  - destruct rest as [|d rest'].
    + destruct Hrest as [-> Ht]. split; [|exact Ht]. apply Permutation_nil. apply Permutation_sym. exact Hr2.
    + apply (IH ((NContr (c_id c), c_target c) :: pool1)); [|exact Hrest].
      constructor. apply Permutation_sym; exact Hr2. Qed.

(* ------------------------------------------------------------------ *)
(* facts about mk_contraction *)
Section MkC.
Variables (id : N) (ns : list oname) (idxs : list (list index)) (tg : list index).
Let c := mk_contraction id ns idxs tg.
Let all := concat idxs.
Let keys := inodup all.
Let f := is_target_idx all tg.

Lemma mk_contracted_In x : In x (c_contracted c) <-> In x all /\ f x = false.
Proof. unfold c, mk_contraction, split_ct; simpl. fold all keys f. split.
  - intros Hx. apply (Permutation_in _ (isort_perm _)) in Hx. apply filter_In in Hx.
    destruct Hx as [Hk Hf]. split; [apply inodup_In; exact Hk|apply negb_true_iff; exact Hf].
  - intros [Ha Hf]. apply (Permutation_in _ (Permutation_sym (isort_perm _))).
    apply filter_In. split; [apply inodup_In; exact Ha|apply negb_true_iff; exact Hf]. Qed.

Lemma mk_target_perm : Permutation (c_target c) (filter f keys).
Proof. unfold c, mk_contraction, split_ct; simpl. fold all keys f.
  destruct (ilist_eqb (isort tg) (isort (filter f keys))) eqn:E; [|apply isort_perm].
  apply ilist_eqb_eq in E. rewrite <- (isort_perm tg), E. apply isort_perm. Qed.

Lemma mk_target_In x : In x (c_target c) <-> In x all /\ f x = true.
Proof. split.
  - intros Hx. apply (Permutation_in _ mk_target_perm) in Hx. apply filter_In in Hx.
    destruct Hx as [Hk Hf]. split; [apply inodup_In; exact Hk|exact Hf].
  - intros [Ha Hf]. apply (Permutation_in _ (Permutation_sym mk_target_perm)).
    apply filter_In. split; [apply inodup_In; exact Ha|exact Hf]. Qed.

Lemma mk_contracted_NoDup : NoDup (c_contracted c).
Proof. unfold c, mk_contraction, split_ct; simpl.
  apply (Permutation_NoDup (Permutation_sym (isort_perm _))). apply NoDup_filter, inodup_NoDup. Qed.
Lemma mk_target_NoDup : NoDup (c_target c).
Proof. apply (Permutation_NoDup (Permutation_sym mk_target_perm)). apply NoDup_filter, inodup_NoDup. Qed.

Lemma mk_local_ok : length ns = length idxs -> step_local_ok c = true.
Proof. intros Hlen. unfold step_local_ok.
  change (c_names c) with ns. change (c_idx c) with idxs. fold all.
  rewrite Hlen, Nat.eqb_refl, (NoDup_inodupb _ mk_contracted_NoDup), (NoDup_inodupb _ mk_target_NoDup). simpl.
  rewrite !andb_true_iff. repeat split; apply forallb_intro; intros x Hx.
  - apply negb_true_iff, imem_nIn. intros Ht. apply mk_contracted_In in Hx. apply mk_target_In in Ht.
    destruct Hx, Ht; congruence.
  - apply orb_true_iff. rewrite !imem_In. destruct (f x) eqn:E.
    + right. apply mk_target_In. auto.
    + left. apply mk_contracted_In. auto.
  - apply imem_In. apply mk_contracted_In in Hx. tauto.
  - apply imem_In. apply mk_target_In in Hx. tauto. Qed.

(* the outer contraction takes the requested order *)
Lemma mk_target_outer : Permutation tg (filter f keys) -> c_target c = tg.
Proof. intros HP. unfold c, mk_contraction, split_ct; simpl. fold all keys f.
  rewrite (isort_perm_eq _ _ HP).
  assert (E : ilist_eqb (isort (filter f keys)) (isort (filter f keys)) = true) by (apply ilist_eqb_eq; reflexivity).
  rewrite E. reflexivity. Qed.
End MkC.

(* ------------------------------------------------------------------ *)
(* groups returned by group_objects: duplicate-free lists of valid positions *)
Definition valid_group (n : nat) (g : list nat) : Prop := NoDup g /\ forall p, In p g -> p < n.

Lemma positions_of_valid objs X : valid_group (length objs) (positions_of objs X).
Proof. unfold positions_of. split.
  - apply NoDup_filter, seq_NoDup.
  - intros p Hp. apply filter_In in Hp. destruct Hp as [Hp _]. apply in_seq in Hp. lia. Qed.

Lemma pairs_valid n p1 p2 : In (p1, p2) (pairs n) -> valid_group n [p1; p2].
Proof. unfold pairs. rewrite in_flat_map. intros [i [Hi Hj]]. apply in_map_iff in Hj.
  destruct Hj as [j [E Hj]]. inversion E; subst. apply in_seq in Hi, Hj. split.
  - constructor; [simpl; lia|constructor; [simpl; tauto|constructor]].
  - intros p [<-|[<-|[]]]; lia. Qed.

Lemma dict_add_valid n g gs : valid_group n g -> Forall (valid_group n) gs -> Forall (valid_group n) (dict_add g gs).
Proof. intros Hg Hgs. unfold dict_add. destruct (group_mem g gs); [exact Hgs|].
  apply Forall_app. split; [exact Hgs|constructor; [exact Hg|constructor]]. Qed.

Lemma closure_valid fuel objs tg maxg : forall X pos gs,
  Forall (valid_group (length objs)) gs ->
  Forall (valid_group (length objs)) (closure fuel objs tg maxg X pos gs).
Proof. induction fuel as [|f IH]; intros X pos gs H; simpl; [exact H|].
  destruct (ilist_eqb X _); [exact H|].
  destruct (_ || _); [exact H|]. apply IH. apply dict_add_valid; [apply positions_of_valid|exact H]. Qed.

Lemma group_step_valid objs tg maxg st p1 p2 :
  valid_group (length objs) [p1; p2] ->
  Forall (valid_group (length objs)) (fst st) -> Forall (valid_group (length objs)) (snd st) ->
  Forall (valid_group (length objs)) (fst (group_step objs tg maxg st (p1, p2))) /\
  Forall (valid_group (length objs)) (snd (group_step objs tg maxg st (p1, p2))).
Proof. destruct st as [gs out]. intros Hp Hg Ho. change (Forall (valid_group (length objs)) gs) in Hg.
  change (Forall (valid_group (length objs)) out) in Ho. unfold group_step. cbv zeta.
  destruct (fst (split_ct [nth_idx objs p1; nth_idx objs p2] tg)) as [|x X].
  - simpl. split; [exact Hg|]. apply Forall_app. split; [exact Ho|]. constructor; [exact Hp|constructor].
  - destruct (maxg <? length (positions_of objs (x :: X))); [simpl; auto|].
    destruct (group_mem (positions_of objs (x :: X)) gs); [simpl; auto|]. cbn [fst snd]. split; [|exact Ho].
    apply closure_valid. apply Forall_app. split; [exact Hg|].
    constructor; [apply positions_of_valid|constructor]. Qed.

Lemma group_objects_valid objs tg mg : Forall (valid_group (length objs)) (group_objects objs tg mg).
Proof. unfold group_objects.
  set (maxg := match mg with None => length objs | Some m => m end).
  assert (H : forall prs st, (forall p1 p2, In (p1, p2) prs -> valid_group (length objs) [p1; p2]) ->
            Forall (valid_group (length objs)) (fst st) -> Forall (valid_group (length objs)) (snd st) ->
            Forall (valid_group (length objs)) (fst (fold_left (group_step objs tg maxg) prs st)) /\
            Forall (valid_group (length objs)) (snd (fold_left (group_step objs tg maxg) prs st))).
  { induction prs as [|[p1 p2] prs IH]; intros st Hp Hg Ho; simpl; [auto|].
    destruct (group_step_valid objs tg maxg st p1 p2 (Hp p1 p2 (or_introl eq_refl)) Hg Ho) as [H1 H2].
    apply IH; [|exact H1|exact H2]. intros a b Hab. apply Hp. right; exact Hab. }
  specialize (H (pairs (length objs)) ([], []) (pairs_valid (length objs)) (Forall_nil _) (Forall_nil _)).
  destruct (fold_left _ _ _) as [gs out]. simpl in H.
  apply Forall_app. exact H. Qed.

(* ------------------------------------------------------------------ *)
(* selection by positions *)
Definition dobj : obj := (dflt_name, []).
Definition sel (pool : list obj) (l : list nat) : list obj := map (fun p => nth p pool dobj) l.

Lemma sel_combine names idxs l : length names = length idxs ->
  sel (combine names idxs) l = combine (map (fun p => nth p names dflt_name) l) (map (nth_idx idxs) l).
Proof. intros Hlen. unfold sel. induction l as [|p l IH]; simpl; [reflexivity|].
  rewrite IH. f_equal. unfold dobj, nth_idx. apply combine_nth. exact Hlen. Qed.

Lemma sel_split pool g : valid_group (length pool) g ->
  Permutation pool (sel pool g ++ sel pool (filter (fun p => negb (nmem p g)) (seq 0 (length pool)))).
Proof. intros [Hnd Hr]. unfold sel. rewrite <- map_app.
  rewrite <- (map_nth_seq pool dobj) at 1. apply Permutation_map.
  apply NoDup_Permutation.
  - apply seq_NoDup.
  - apply NoDup_app_intro; [exact Hnd|apply NoDup_filter, seq_NoDup|].
    intros p Hp Hq. apply filter_In in Hq. destruct Hq as [_ Hq].
    apply negb_true_iff in Hq. apply nmem_In in Hp. congruence.
  - intros p. rewrite in_app_iff, filter_In, in_seq. split.
    + intros Hp. destruct (nmem p g) eqn:E; [left; apply nmem_In; exact E|right; split; [exact Hp|reflexivity]].
    + intros [Hp|[Hp _]]; [specialize (Hr p Hp); lia|exact Hp]. Qed.

Lemma pool_idx_sel names idxs l : length names = length idxs ->
  pool_idx (sel (combine names idxs) l) = concat (map (nth_idx idxs) l).
Proof. intros Hlen. rewrite sel_combine by exact Hlen. apply pool_idx_combine. rewrite !map_length. reflexivity. Qed.

(* ------------------------------------------------------------------ *)
(* consistent requests *)
Definition consistent (tg : list index) (ix : list index) : Prop :=
  NoDup tg /\ (forall x, In x tg -> In x ix) /\ (forall x, icount x ix = 1 -> In x tg).

Lemma consistent_perm tg a b : Permutation a b -> consistent tg a -> consistent tg b.
Proof. intros HP [H1 [H2 H3]]. split; [exact H1|]. split.
  - intros x Hx. eapply Permutation_in; eauto.
  - intros x Hx. apply H3. rewrite (icount_perm x _ _ HP). exact Hx. Qed.

Lemma leaks_false c rem : leaks c rem = false ->
  forall x, In x (c_contracted c) -> ~ In x (concat rem).
Proof. unfold leaks. intros H x Hx Hc. apply in_concat in Hc. destruct Hc as [ix [Hix Hxi]].
  assert (E : existsb (fun ix => existsb (fun x => imem x ix) (c_contracted c)) rem = true).
  { apply existsb_exists. exists ix. split; [exact Hix|]. apply existsb_exists. exists x. split; [exact Hx|].
    apply imem_In; exact Hxi. }
  congruence. Qed.

(* consistency is preserved by a non-leaking step: A = indices of the group,
   B = indices of the remaining objects *)
Lemma consistent_step id ns gi tg B :
  let c := mk_contraction id ns gi tg in
  consistent tg (concat gi ++ B) ->
  (forall x, In x (c_contracted c) -> ~ In x B) ->
  consistent tg (c_target c ++ B).
Proof. intros c [Hnd [Hsub Hone]] Hleak. split; [exact Hnd|]. split.
  - intros x Hx. apply in_app_iff. pose proof (Hsub x Hx) as Hab. apply in_app_iff in Hab.
    destruct Hab as [Ha|Hb]; [left|right; exact Hb].
    apply mk_target_In. split; [exact Ha|]. unfold is_target_idx. apply orb_true_iff. right. apply imem_In; exact Hx.
  - intros x Hx. rewrite icount_app in Hx.
    destruct (imem x tg) eqn:Etg; [apply imem_In; exact Etg|]. exfalso.
    pose proof (icount_NoDup x _ (mk_target_NoDup id ns gi tg)) as HT. fold c in HT.
    destruct (imem x (c_target c)) eqn:ET.
    + (* x is a target of the step that is not a term target: occurs once in the group *)
      apply imem_In, mk_target_In in ET. destruct ET as [Ha Hf].
      unfold is_target_idx in Hf. rewrite Etg, orb_false_r in Hf. apply Nat.eqb_eq in Hf.
      assert (E : icount x (concat gi ++ B) = 1) by (rewrite icount_app; lia).
      apply Hone in E. apply imem_In in E. congruence.
    + assert (HB : In x B) by (apply icount_In; lia).
      assert (HnA : ~ In x (concat gi)).
      { intros Ha. apply (Hleak x); [|exact HB]. apply mk_contracted_In. split; [exact Ha|].
        destruct (is_target_idx (concat gi) tg x) eqn:Ef; [|reflexivity].
        assert (Hx' : In x (c_target c)) by (apply mk_target_In; auto).
        apply imem_In in Hx'. congruence. }
      assert (E : icount x (concat gi ++ B) = 1) by (rewrite icount_app, (icount_zero x _ HnA); lia).
      apply Hone in E. apply imem_In in E. congruence. Qed.

(* the step that consumes everything carries the requested targets *)
Lemma consistent_outer id ns gi tg :
  consistent tg (concat gi) -> c_target (mk_contraction id ns gi tg) = tg.
Proof. intros [Hnd [Hsub Hone]]. apply mk_target_outer.
  apply NoDup_Permutation; [exact Hnd|apply NoDup_filter, inodup_NoDup|].
  intros x. rewrite filter_In, inodup_In. unfold is_target_idx. rewrite orb_true_iff, Nat.eqb_eq, imem_In. split.
  - intros Hx. split; [apply Hsub; exact Hx|right; exact Hx].
  - intros [_ [H|H]]; [apply Hone; exact H|exact H]. Qed.

(* ------------------------------------------------------------------ *)
(* the enumeration *)
Definition names_below (cnt : N) (names : list oname) : Prop :=
  forall id, In (NContr id) names -> (id < cnt)%N.

Definition rec_ok (tg : list index) (rec : N -> list oname -> list (list index) -> list scheme * N) : Prop :=
  forall cnt rn ri, length rn = length ri -> consistent tg (pool_idx (combine rn ri)) -> names_below cnt rn ->
    (cnt <= snd (rec cnt rn ri))%N /\
    forall s, In s (fst (rec cnt rn ri)) -> wf_steps tg (combine rn ri) s = true.

Lemma existsb_false_intro {A} (f : A -> bool) l : (forall x, In x l -> f x = false) -> existsb f l = false.
Proof. induction l as [|y r IH]; simpl; intros H; [reflexivity|].
  rewrite (H y (or_introl eq_refl)), IH; auto. Qed.

Lemma names_fresh names idxs rem cnt0 cnt : length names = length idxs ->
  names_below cnt0 names -> (cnt0 <= cnt)%N ->
  existsb (fun o => oname_eqb (fst o) (NContr cnt)) (sel (combine names idxs) rem) = false.
Proof. intros Hlen Hb Hle. rewrite sel_combine by exact Hlen. apply existsb_false_intro.
  intros [n ix] Ho. apply in_combine_l in Ho. simpl. apply in_map_iff in Ho. destruct Ho as [p [E _]].
  destruct (oname_eqb n (NContr cnt)) eqn:Eq; [|reflexivity]. apply oname_eqb_eq in Eq. rewrite Eq in E.
  destruct (Nat.lt_ge_cases p (length names)) as [Hp|Hp].
  - assert (Hin : In (NContr cnt) names) by (rewrite <- E; apply nth_In; exact Hp).
    specialize (Hb cnt Hin). lia.
  - rewrite nth_overflow in E by exact Hp. discriminate. Qed.

Lemma enum_step_ok rec tg mid names idxs cnt0 :
  length names = length idxs -> consistent tg (pool_idx (combine names idxs)) ->
  names_below cnt0 names -> rec_ok tg rec ->
  forall g, valid_group (length names) g ->
  forall acc cnt, (cnt0 <= cnt)%N ->
  (forall s, In s acc -> wf_steps tg (combine names idxs) s = true) ->
  (cnt0 <= snd (enum_step rec tg mid names idxs (acc, cnt) g))%N /\
  forall s, In s (fst (enum_step rec tg mid names idxs (acc, cnt) g)) ->
            wf_steps tg (combine names idxs) s = true.
Proof.
  intros Hlen Hcons Hbelow Hrec g Hg acc cnt Hle Hacc.
  set (pool := combine names idxs).
  assert (Hplen : length pool = length names).
  { unfold pool. rewrite combine_length, <- Hlen. apply Nat.min_id. }
  unfold enum_step. cbv zeta.
  set (gn := map (fun p => nth p names dflt_name) g).
  set (gi := map (nth_idx idxs) g).
  set (c := mk_contraction cnt gn gi tg).
  set (rem := filter (fun p => negb (nmem p g)) (seq 0 (length names))).
  destruct (skip_itmd mid tg c); [simpl; split; [lia|exact Hacc]|].
  destruct (leaks c (map (nth_idx idxs) rem)) eqn:Eleak; [simpl; split; [lia|exact Hacc]|].
  (* common facts about the step *)
  assert (Hobjs : c_objs c = sel pool g).
  { unfold c_objs. change (c_names c) with gn. change (c_idx c) with gi.
    unfold pool. rewrite sel_combine by exact Hlen. reflexivity. }
  assert (Hsplit : Permutation pool (sel pool g ++ sel pool rem)).
  { assert (Hg' : valid_group (length pool) g) by (rewrite Hplen; exact Hg).
    unfold rem. rewrite <- Hplen. apply sel_split. exact Hg'. }
  assert (HidxG : pool_idx (sel pool g) = concat gi) by (apply pool_idx_sel; exact Hlen).
  assert (HidxR : pool_idx (sel pool rem) = concat (map (nth_idx idxs) rem)) by (apply pool_idx_sel; exact Hlen).
  assert (Hcons2 : consistent tg (concat gi ++ concat (map (nth_idx idxs) rem))).
  { rewrite <- HidxG, <- HidxR, <- pool_idx_app.
    apply (consistent_perm tg _ _ (pool_idx_perm_full _ _ Hsplit)). exact Hcons. }
  assert (Hnoleak : forall x, In x (c_contracted c) -> ~ In x (concat (map (nth_idx idxs) rem)))
    by (apply leaks_false; exact Eleak).
  assert (Hloc : step_local_ok c = true).
  { apply mk_local_ok. unfold gn, gi. rewrite !map_length. reflexivity. }
  destruct (remove_objs_of_perm (c_objs c) pool (sel pool rem)) as [r [Er Hr]].
  { rewrite Hobjs. exact Hsplit. }
  assert (Hok : step_ok tg c r).
  { split; [exact Hloc|]. split.
    - intros x Hx. split.
      + apply mk_contracted_In in Hx. destruct Hx as [_ Hf]. unfold is_target_idx in Hf.
        apply orb_false_iff in Hf. apply imem_nIn. tauto.
      + intros Hc. apply (pool_idx_perm _ _ x Hr) in Hc. rewrite HidxR in Hc. exact (Hnoleak x Hx Hc).
    - rewrite (existsb_perm _ _ _ Hr). change (c_id c) with cnt.
      apply (names_fresh names idxs rem cnt0 cnt Hlen Hbelow Hle). }
  cbn [length]. rewrite map_length.
  destruct (S (length rem) =? 1) eqn:Eone.
  - (* the group consumes all objects *)
    simpl. split; [lia|]. intros s Hs. apply in_app_iff in Hs. destruct Hs as [Hs|[<-|[]]]; [apply Hacc; exact Hs|].
    apply Nat.eqb_eq in Eone. assert (Erem : rem = []) by (destruct rem; [reflexivity|simpl in Eone; lia]).
    apply (wf_steps_intro tg pool c [] r Er Hok).
    rewrite Erem in Hr, Hcons2. simpl in Hr, Hcons2. split; [apply Permutation_nil; apply Permutation_sym; exact Hr|].
    rewrite app_nil_r in Hcons2. exact (consistent_outer cnt gn gi tg Hcons2).
  - set (rnames := NContr (c_id c) :: map (fun p => nth p names dflt_name) rem).
    set (ridx := c_target c :: map (nth_idx idxs) rem).
    assert (Hrl : length rnames = length ridx) by (unfold rnames, ridx; simpl; rewrite !map_length; reflexivity).
    assert (Hrpool : combine rnames ridx = (NContr (c_id c), c_target c) :: sel pool rem).
    { unfold rnames, ridx, pool. simpl. rewrite sel_combine by exact Hlen. reflexivity. }
    assert (Hrcons : consistent tg (pool_idx (combine rnames ridx))).
    { rewrite Hrpool. change (consistent tg (c_target c ++ pool_idx (sel pool rem))). rewrite HidxR.
      exact (consistent_step cnt gn gi tg _ Hcons2 Hnoleak). }
    assert (Hrbelow : names_below (N.succ cnt) rnames).
    { intros id [E|Hin].
      - inversion E. change (c_id c) with cnt. lia.
      - apply in_map_iff in Hin. destruct Hin as [p [E _]].
        destruct (Nat.lt_ge_cases p (length names)) as [Hp|Hp].
        + assert (Hin : In (NContr id) names) by (rewrite <- E; apply nth_In; exact Hp).
          specialize (Hbelow id Hin). lia.
        + rewrite nth_overflow in E by exact Hp. discriminate. }
    destruct (Hrec (N.succ cnt) rnames ridx Hrl Hrcons Hrbelow) as [Hcnt Hsubs].
    fold rnames ridx. destruct (rec (N.succ cnt) rnames ridx) as [subs cnt'].
    simpl in Hcnt, Hsubs. simpl. split; [lia|].
    intros s Hs. apply in_app_iff in Hs. destruct Hs as [Hs|Hs]; [apply Hacc; exact Hs|].
    apply in_map_iff in Hs. destruct Hs as [sub [<- Hsub]].
    specialize (Hsubs sub Hsub).
    apply (wf_steps_intro tg pool c sub r Er Hok).
    destruct sub as [|d sub']; [discriminate Hsubs|].
    apply (wf_steps_perm tg (d :: sub') (combine rnames ridx)); [|exact Hsubs].
    rewrite Hrpool. constructor. apply Permutation_sym; exact Hr.
Qed.

Lemma enum_ok fuel : forall tg mid mg, rec_ok tg (enum fuel tg mid mg).
Proof. induction fuel as [|f IH]; intros tg mid mg cnt names idxs Hlen Hcons Hbelow.
  - simpl. split; [lia|tauto].
  - simpl.
    assert (Hfold : forall gs, Forall (valid_group (length names)) gs ->
              forall acc c1, (cnt <= c1)%N -> (forall s, In s acc -> wf_steps tg (combine names idxs) s = true) ->
              (cnt <= snd (fold_left (enum_step (enum f tg mid mg) tg mid names idxs) gs (acc, c1)))%N /\
              forall s, In s (fst (fold_left (enum_step (enum f tg mid mg) tg mid names idxs) gs (acc, c1))) ->
                        wf_steps tg (combine names idxs) s = true).
    { induction gs as [|g gs IHg]; intros Hv acc c1 Hle Hacc; cbn [fold_left]; [simpl; auto|].
      inversion Hv as [|? ? Hg Hv']; subst.
      destruct (enum_step_ok (enum f tg mid mg) tg mid names idxs cnt Hlen Hcons Hbelow (IH tg mid mg)
                  g Hg acc c1 Hle Hacc) as [H1 H2].
      destruct (enum_step (enum f tg mid mg) tg mid names idxs (acc, c1) g) as [acc2 c2].
      apply IHg; [exact Hv'|exact H1|exact H2]. }
    apply Hfold; [|lia|intros s []].
    rewrite Hlen. apply group_objects_valid. Qed.

(* ------------------------------------------------------------------ *)
Lemma is_base_names_below objs cnt : forallb is_base objs = true -> names_below cnt (map fst objs).
Proof. intros H id Hin. apply in_map_iff in Hin. destruct Hin as [o [E Ho]].
  pose proof (forallb_In _ _ H o Ho) as Hb. unfold is_base in Hb. rewrite E in Hb. discriminate. Qed.

(* POSITIVE THEOREM: with the leak guard every enumerated scheme is
   well-formed, for every consistent request *)
Theorem enumerate_schemes_wf_ objs tg mid mg cnt :
  forallb is_base objs = true -> consistent tg (pool_idx objs) ->
  forall s, In s (fst (enumerate_schemes tg mid mg cnt objs)) -> wf_scheme objs tg s = true.
Proof. intros Hbase Hcons s Hs. unfold wf_scheme. rewrite Hbase. destruct Hcons as [Hnd Hrest] eqn:E. clear E.
  rewrite (NoDup_inodupb tg Hnd). simpl.
  unfold enumerate_schemes in Hs.
  destruct (enum_ok (2 * length objs + 1) tg mid mg cnt (map fst objs) (map snd objs)) as [_ H].
  - rewrite !map_length. reflexivity.
  - rewrite combine_fst_snd_map. exact Hcons.
  - apply is_base_names_below. exact Hbase.
  - rewrite combine_fst_snd_map in H. apply H. exact Hs. Qed.

Lemma select_optimal_In ss s : select_optimal ss = Some s -> In s ss.
Proof. unfold select_optimal.
  set (F := fun (best : option (scheme * list nat)) (s0 : scheme) =>
     let k := rank_key s0 in
     match best with
     | None => Some (s0, k)
     | Some (_, kb) => if nlist_ltb k kb then Some (s0, k) else best
     end).
  assert (HF : forall b y, F b y = b \/ exists k, F b y = Some (y, k)).
  { intros [[xb kb]|] y; unfold F; cbv zeta.
    - destruct (nlist_ltb (rank_key y) kb); [right; eexists; reflexivity|left; reflexivity].
    - right; eexists; reflexivity. }
  assert (H : forall l b, fold_left F l b = b \/ exists x k, fold_left F l b = Some (x, k) /\ In x l).
  { induction l as [|y l IH]; intros b; cbn [fold_left]; [left; reflexivity|].
    destruct (IH (F b y)) as [E|[x [k [E Hx]]]].
    - rewrite E. destruct (HF b y) as [E2|[k E2]]; [left; exact E2|].
      right. exists y, k. split; [exact E2|left; reflexivity].
    - right. exists x, k. split; [exact E|right; exact Hx]. }
  intros E. destruct (H ss None) as [E2|[x [k [E2 Hx]]]]; rewrite E2 in E; simpl in E; [discriminate|].
  inversion E; subst. exact Hx. Qed.

(* ... hence every scheme returned by optimize_contractions is well-formed *)
Theorem optimize_contractions_wf_ objs tg mid mg cnt s cnt' :
  forallb is_base objs = true -> consistent tg (pool_idx objs) ->
  optimize_contractions cnt objs tg mid mg = OScheme s cnt' -> wf_scheme objs tg s = true.
Proof. intros Hbase Hcons. unfold optimize_contractions.
  destruct objs as [|o1 [|o2 objs']]; [discriminate| |].
  - intros E. inversion E; subst. destruct Hcons as [H1 [H2 H3]].
    apply (unoptimized_wf_ cnt [o1] tg Hbase H1 H2 H3).
  - set (objs := o1 :: o2 :: objs') in *.
    assert (H : forall ss c', enumerate_schemes tg mid mg cnt objs = (ss, c') ->
              match select_optimal ss with None => ONoScheme | Some s0 => OScheme s0 c' end = OScheme s cnt' ->
              wf_scheme objs tg s = true).
    { intros ss c' Ee Es. destruct (select_optimal ss) as [s0|] eqn:Eo; [|discriminate].
      inversion Es; subst. apply (enumerate_schemes_wf_ objs tg mid mg cnt Hbase Hcons).
      rewrite Ee. simpl. apply select_optimal_In. exact Eo. }
    destruct mg as [m|].
    + destruct (m <? 2); [discriminate|]. destruct (enumerate_schemes tg mid (Some m) cnt objs) as [ss c'] eqn:Ee.
      apply (H ss c' eq_refl).
    + destruct (enumerate_schemes tg mid None cnt objs) as [ss c'] eqn:Ee. apply (H ss c' eq_refl). Qed.

(* ... and evaluates, step by step, to the value of the term *)
Theorem optimize_contractions_correct_ (S : Scalar) (R : space -> spin -> list nat)
  (tval : nat -> list nat -> K S) objs tg mid mg cnt s cnt' :
  forallb is_base objs = true -> consistent tg (pool_idx objs) ->
  optimize_contractions cnt objs tg mid mg = OScheme s cnt' ->
  forall r : env, run_scheme S R tval s (map r tg) = term_value S R tval tg objs r.
Proof. intros Hb Hc E. apply wf_scheme_correct_. eapply optimize_contractions_wf_; eauto. Qed.
