(* C08 - renaming the indices of a term by an arbitrary map, and the value
   clause: an injective, sort-preserving renaming of the contracted indices
   that avoids the targets is a product of admissible transpositions and
   therefore leaves the value of the term unchanged (Core/Swap.v). *)
From Coq Require Import ZArith NArith QArith List Bool Lia Permutation.
From ADC Require Import Core.Scalar Core.Index Core.Expr Core.Swap Core.Canon Core.Equiv.
From ADC Require Import Models.Substitution Models.SubstitutionProofs.
Import ListNotations.

(* ---------- applying a map to every index of a term ---------- *)
Definition map_tens (f : index -> index) (t : tens) : tens :=
  Tens (tkind t) (tname t) (tbks t) (map f (tupper t)) (map f (tlower t)).
Definition map_poly f (p : list (Q * list tens)) :=
  map (fun qt => (fst qt, map (map_tens f) (snd qt))) p.
Definition map_atom f (x : atom) : atom :=
  match x with
  | ATens t => ATens (map_tens f t)
  | ADelta i j => ADelta (f i) (f j)
  | ASymb n => ASymb n | ASqrt r => ASqrt r
  | APoly p => APoly (map_poly f p) end.
Definition map_fac f (fc : factor) : factor := (map_atom f (fst fc), snd fc).
Definition map_term f (t : term) : term := Term (tcoef t) (map (map_fac f) (tfacs t)).

Lemma swap_term_map a b t : swap_term a b t = map_term (swap_idx a b) t.
Proof. reflexivity. Qed.

Lemma map_tens_ext f g t : (forall x, In x (tens_idx t) -> f x = g x) -> map_tens f t = map_tens g t.
Proof. intros H. unfold map_tens. f_equal; apply map_ext_in; intros x Hx; apply H; unfold tens_idx;
  apply in_or_app; auto. Qed.
Lemma map_tensl_ext f g ts : (forall x, In x (flat_map tens_idx ts) -> f x = g x) ->
  map (map_tens f) ts = map (map_tens g) ts.
Proof. induction ts as [|t r IH]; simpl; intros H; [reflexivity|]. f_equal.
  - apply map_tens_ext. intros x Hx. apply H. apply in_or_app; left; exact Hx.
  - apply IH. intros x Hx. apply H. apply in_or_app; right; exact Hx. Qed.
Lemma map_poly_ext f g p : (forall x, In x (poly_idx p) -> f x = g x) -> map_poly f p = map_poly g p.
Proof. unfold poly_idx. induction p as [|qt r IH]; simpl; intros H; [reflexivity|]. f_equal.
  - f_equal. apply map_tensl_ext. intros x Hx. apply H. apply in_or_app; left; exact Hx.
  - apply IH. intros x Hx. apply H. apply in_or_app; right; exact Hx. Qed.
Lemma map_atom_ext f g a : (forall x, In x (atom_idx a) -> f x = g x) -> map_atom f a = map_atom g a.
Proof. destruct a as [t|i j|n|q|p]; simpl; intros H; try reflexivity.
  - f_equal. apply map_tens_ext; exact H.
  - rewrite (H i), (H j); simpl; auto.
  - f_equal. apply map_poly_ext; exact H. Qed.
Lemma map_term_ext f g t : (forall x, In x (term_idx t) -> f x = g x) -> map_term f t = map_term g t.
Proof. unfold map_term, term_idx, mono_idx. intros H. f_equal.
  induction (tfacs t) as [|fc r IH]; simpl in *; [reflexivity|]. f_equal.
  - unfold map_fac. f_equal. apply map_atom_ext. intros x Hx. apply H. apply in_or_app; left; exact Hx.
  - apply IH. intros x Hx. apply H. apply in_or_app; right; exact Hx. Qed.

Lemma map_tens_comp f g t : map_tens g (map_tens f t) = map_tens (fun x => g (f x)) t.
Proof. unfold map_tens; simpl. rewrite !map_map. reflexivity. Qed.
Lemma map_atom_comp f g a : map_atom g (map_atom f a) = map_atom (fun x => g (f x)) a.
Proof. destruct a as [t|i j|n|q|p]; simpl; try reflexivity.
  - rewrite map_tens_comp. reflexivity.
  - f_equal. unfold map_poly. rewrite map_map. apply map_ext. intros [c ts]; simpl. f_equal.
    rewrite map_map. apply map_ext. intros t. apply map_tens_comp. Qed.
Lemma map_term_comp f g t : map_term g (map_term f t) = map_term (fun x => g (f x)) t.
Proof. unfold map_term; simpl. f_equal. rewrite map_map. apply map_ext. intros [a inv].
  unfold map_fac; simpl. rewrite map_atom_comp. reflexivity. Qed.

Lemma apply_swaps_map sw t : apply_swaps sw t = map_term (swaps_seq sw) t.
Proof. unfold apply_swaps. revert t. induction sw as [|[a b] r IH]; intros t; simpl.
  - destruct t as [c fs]. unfold map_term; simpl. f_equal. rewrite <- (map_id fs) at 1.
    apply map_ext. intros [x inv]. unfold map_fac; simpl. f_equal.
    destruct x as [t|i j|n|q|p]; simpl; try reflexivity.
    + destruct t; unfold map_tens; simpl. rewrite !map_id. reflexivity.
    + f_equal. unfold map_poly. rewrite <- (map_id p) at 1. apply map_ext. intros [c0 ts]; simpl. f_equal.
      rewrite <- (map_id ts) at 1. apply map_ext. intros t; destruct t; unfold map_tens; simpl.
      rewrite !map_id. reflexivity.
  - rewrite IH, swap_term_map, map_term_comp. reflexivity. Qed.

(* ---------- an injective renaming as a product of transpositions ---------- *)
(* process the pairs one by one: move the current image of o onto n *)
Definition realise (s : subs) : swaps :=
  fold_left (fun sw on => sw ++ [(swaps_seq sw (fst on), snd on)]) s [].

Lemma swaps_seq_inj sw x y : swaps_seq sw x = swaps_seq sw y -> x = y.
Proof. unfold swaps_seq. revert x y. induction sw as [|[a b] r IH]; intros x y H; simpl in H; [exact H|].
  apply IH in H. eapply swap_idx_inj; exact H. Qed.
Lemma swaps_seq_fix tg sw x : swaps_ok tg sw = true -> In x tg -> swaps_seq sw x = x.
Proof. unfold swaps_seq, swaps_ok. revert x. induction sw as [|[a b] r IH]; intros x H Hx; simpl in *; [reflexivity|].
  rewrite !andb_true_iff in H. destruct H as [[[H1 H2] H3] H4].
  rewrite swap_idx_other; [apply IH; assumption| |]; intros ->.
  - apply negb_true_iff, imem_nIn in H2. tauto.
  - apply negb_true_iff, imem_nIn in H3. tauto. Qed.
Lemma swaps_seq_sort tg sw x : swaps_ok tg sw = true -> same_sort (swaps_seq sw x) x = true.
Proof. unfold swaps_seq, swaps_ok. revert x. induction sw as [|[a b] r IH]; intros x H; simpl in *.
  - unfold same_sort. apply andb_true_iff. split; [apply space_eqb_eq|apply spin_eqb_eq]; reflexivity.
  - rewrite !andb_true_iff in H. destruct H as [[[H1 H2] H3] H4].
    specialize (IH (swap_idx a b x) H4). pose proof (swap_idx_sort a b x H1) as H5.
    apply same_sort_eq in IH, H5. destruct IH as [E1 E2], H5 as [E3 E4].
    unfold same_sort. rewrite E1, E2, E3, E4. apply andb_true_iff.
    split; [apply space_eqb_eq|apply spin_eqb_eq]; reflexivity. Qed.
Lemma swaps_ok_app tg a b : swaps_ok tg (a ++ b) = swaps_ok tg a && swaps_ok tg b.
Proof. unfold swaps_ok. apply forallb_app. Qed.

Section Realise.
Variable tg : list index.
Definition admissible (s : subs) : Prop :=
  NoDup (map fst s) /\ NoDup (map snd s) /\
  forall o n, In (o, n) s -> same_sort o n = true /\ ~ In o tg /\ ~ In n tg.

Lemma realise_gen s : forall sw0 done,
  swaps_ok tg sw0 = true ->
  (forall o n, In (o, n) done -> swaps_seq sw0 o = n) ->
  admissible (done ++ s) ->
  let sw := fold_left (fun sw on => sw ++ [(swaps_seq sw (fst on), snd on)]) s sw0 in
  swaps_ok tg sw = true /\ forall o n, In (o, n) (done ++ s) -> swaps_seq sw o = n.
Proof. induction s as [|[o n] r IH]; intros sw0 done Hok Hdone Hadm; simpl.
  - rewrite app_nil_r. split; assumption.
  - destruct Hadm as (HK & HV & HP).
    assert (Hon : In (o, n) (done ++ (o, n) :: r)) by (apply in_or_app; right; left; reflexivity).
    destruct (HP o n Hon) as (Hs & Ho & Hn).
    assert (Hc : ~ In (swaps_seq sw0 o) tg).
    { intros H. pose proof (swaps_seq_fix tg sw0 _ Hok H) as H1.
      apply swaps_seq_inj in H1. rewrite H1 in H. tauto. }
    set (c := swaps_seq sw0 o) in *.
    assert (Hcs : same_sort c n = true).
    { pose proof (swaps_seq_sort tg sw0 o Hok) as H1. fold c in H1.
      apply same_sort_eq in H1, Hs. destruct H1 as [E1 E2], Hs as [E3 E4].
      unfold same_sort. rewrite E1, E2, E3, E4. apply andb_true_iff.
      split; [apply space_eqb_eq|apply spin_eqb_eq]; reflexivity. }
    replace (done ++ (o, n) :: r) with ((done ++ [(o, n)]) ++ r) in * by (rewrite <- app_assoc; reflexivity).
    apply IH.
    + rewrite swaps_ok_app, Hok. simpl. rewrite Hcs. simpl.
      apply imem_nIn in Hc, Hn. rewrite Hc, Hn. reflexivity.
    + intros o' n' H. rewrite swaps_seq_snoc. cbn [fst snd].
      apply in_app_iff in H. destruct H as [H|[H|[]]].
      * rewrite (Hdone o' n' H). apply swap_idx_other.
        -- intros E. rewrite <- (Hdone o' n' H) in E. apply swaps_seq_inj in E. subst o'.
           (* o occurs twice among the keys *)
           rewrite <- app_assoc in HK. simpl in HK. rewrite map_app in HK. simpl in HK.
           apply NoDup_remove_2 in HK. apply HK. apply in_or_app. left.
           apply (in_map fst) in H. exact H.
        -- intros E. subst n'.
           rewrite <- app_assoc in HV. simpl in HV. rewrite map_app in HV. simpl in HV.
           apply NoDup_remove_2 in HV. apply HV. apply in_or_app. left.
           apply (in_map snd) in H. exact H.
      * inversion H; subst o' n'. fold c. unfold swap_idx. rewrite index_eqb_refl. reflexivity.
    + split; [exact HK|split; [exact HV|exact HP]]. Qed.

Lemma realise_spec s : admissible s ->
  swaps_ok tg (realise s) = true /\ forall o n, In (o, n) s -> swaps_seq (realise s) o = n.
Proof. intros H. apply (realise_gen s [] []); [reflexivity|intros o n []|exact H]. Qed.
End Realise.

(* ---------- the value clause ---------- *)
Theorem renaming_preserves_value (S : Scalar) (T : tmodel S) tg r (s : subs) (t : term) :
  admissible tg s ->
  (forall x, In x (term_idx t) -> In x (map fst s) \/ In x tg) ->
  eval_term S T tg r (map_term (subst_sim s) t) = eval_term S T tg r t.
Proof. intros Ha Hcov. destruct (realise_spec tg s Ha) as [Hok Hre].
  rewrite <- (apply_swaps_sound S T tg r (realise s) t Hok). rewrite apply_swaps_map.
  f_equal. apply map_term_ext. intros x Hx. destruct Ha as (HK & _ & HP).
  unfold subst_sim. destruct (lookup s x) as [n|] eqn:E.
  - apply lookup_In in E. symmetry. apply Hre; exact E.
  - apply lookup_None in E. destruct (Hcov x Hx) as [H|H]; [tauto|].
    symmetry. apply (swaps_seq_fix tg); assumption. Qed.

(* substitute_contracted: renaming all contracted indices of a term to the lowest
   unused names leaves its value unchanged, for every term, every target list,
   every tensor model and every assignment of the targets *)
Theorem substitute_contracted_value (S : Scalar) (T : tmodel S) tg r (t : term) :
  eval_term S T tg r (map_term (subst_sim (sc_map (contracted tg t) tg)) t) = eval_term S T tg r t.
Proof. assert (Hnd : NoDup (contracted tg t)).
  { unfold contracted, contracted_of. apply NoDup_filter. apply inodup_NoDup. }
  destruct (sc_map_spec (contracted tg t) tg Hnd) as (H1 & H2 & H3 & _).
  apply renaming_preserves_value.
  - split; [apply (Permutation_NoDup H1 Hnd)|]. split; [exact H2|].
    intros o n Hin. destruct (H3 o n Hin) as (Hs & Hn & _). split; [exact Hs|]. split; [|exact Hn].
    apply (in_map fst) in Hin. simpl in Hin. apply (Permutation_in _ (Permutation_sym H1)) in Hin.
    unfold contracted, contracted_of in Hin. apply filter_In in Hin. destruct Hin as [_ Hin].
    apply negb_true_iff, imem_nIn in Hin. exact Hin.
  - intros x Hx. destruct (imem x tg) eqn:E; [right; apply imem_In; exact E|left].
    apply (Permutation_in _ H1). unfold contracted, contracted_of. apply filter_In.
    split; [apply inodup_In; exact Hx|rewrite E; reflexivity]. Qed.

(* the renaming never identifies two indices of the term, not even transiently while the
   ordered list is applied pair by pair: once merged, two indices stay merged *)
Theorem subst_seq_no_collision u0 m l1 l2 x y :
  NoDup (map fst m) -> older u0 m -> order_substitutions u0 m = l1 ++ l2 ->
  ~ In x (temporaries u0 m) -> ~ In y (temporaries u0 m) ->
  subst_sim m x <> subst_sim m y -> subst_seq l1 x <> subst_seq l1 y.
Proof. intros H1 H2 H3 Hx Hy Hne Heq. apply Hne.
  rewrite <- (order_substitutions_correct u0 m x H1 H2 Hx), <- (order_substitutions_correct u0 m y H1 H2 Hy).
  rewrite H3, !subst_seq_app, Heq. reflexivity. Qed.
