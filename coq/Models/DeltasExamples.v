(* C09 - a concrete scalar field (Qc), a concrete orbital model and concrete
   products: the hypotheses of the theorems of DeltasProofs.v are satisfiable,
   and the hypothesis "every contracted index occurs on another object" is
   necessary for the code as it is. *)
From Coq Require Import ZArith QArith Qcanon List Bool Lia String Permutation.
From ADC Require Import Core.Scalar Core.Index Core.Expr Models.Deltas Models.DeltasProofs.
Import ListNotations.
Open Scope string_scope.

(* ---------- the rationals as a Scalar ---------- *)
Lemma c09_Q2Qc_add a b : Q2Qc (a + b) = (Q2Qc a + Q2Qc b)%Qc.
Proof. unfold Qcplus. apply Q2Qc_eq_iff. cbn [this Q2Qc]. rewrite !Qred_correct. reflexivity. Qed.
Lemma c09_Q2Qc_mul a b : Q2Qc (a * b) = (Q2Qc a * Q2Qc b)%Qc.
Proof. unfold Qcmult. apply Q2Qc_eq_iff. cbn [this Q2Qc]. rewrite !Qred_correct. reflexivity. Qed.
Lemma c09_Qinv_opp_eq (x : Q) : (/ (- x) == - / x)%Q.
Proof. destruct x as [[|n|n] d]; reflexivity. Qed.
Lemma c09_Qcinv_opp x : (/ (- x) = - / x)%Qc.
Proof. unfold Qcinv, Qcopp. apply Q2Qc_eq_iff. cbn [this Q2Qc]. rewrite !Qred_correct. apply c09_Qinv_opp_eq. Qed.

Definition QcS : Scalar :=
  {| K := Qc; k0 := 0%Qc; k1 := 1%Qc; kadd := Qcplus; kmul := Qcmult; ksub := Qcminus;
     kopp := Qcopp; kinv := Qcinv; ofQ := Q2Qc; Kring := Qcrt;
     ofQ_eq := fun a b H => proj2 (Q2Qc_eq_iff a b) H;
     ofQ_0 := eq_refl; ofQ_1 := eq_refl;
     ofQ_add := c09_Q2Qc_add; ofQ_mul := c09_Q2Qc_mul; kinv_opp := c09_Qcinv_opp |}.

(* ---------- four spin orbitals: 0 = occ alpha, 1 = occ beta, 2 = virt alpha, 3 = virt beta ---------- *)
Definition rng4 (s : space) (p : spin) : list nat :=
  match s, p with
  | Occ, Alpha => [0] | Occ, Beta => [1] | Virt, Alpha => [2] | Virt, Beta => [3]
  | Occ, NoSpin => [0; 1] | Virt, NoSpin => [2; 3]
  | Gen, Alpha => [0; 2] | Gen, Beta => [1; 3] | Gen, NoSpin => [0; 2; 1; 3]
  end%nat.
Definition tv4 (k : kind) (name : string) (b : Z) (up lo : list nat) : Qc :=
  Q2Qc (Z.of_nat (fold_left (fun a x => 5 * a + x + 1)%nat (up ++ lo)%list 2%nat) # 1).
Definition T4 : tmodel QcS :=
  Build_tmodel QcS rng4 tv4 (fun _ => Q2Qc (7 # 1)) (fun _ => 1%Qc).

Example T4_orbital_model : orbital_model QcS T4.
Proof. split.
  - intros [| |]; simpl; try apply Permutation_refl. apply perm_skip. apply perm_swap.
  - intros [| |]; simpl; apply Permutation_refl.
  - simpl. repeat constructor; simpl; intuition discriminate. Qed.

(* ---------- indices and products ---------- *)
Definition ii := Idx Occ NoSpin 105 0 0.
Definition ij := Idx Occ NoSpin 106 0 0.
Definition ia := Idx Virt NoSpin 97 0 0.
Definition ip := Idx Gen NoSpin 112 0 0.
Definition iq := Idx Gen NoSpin 113 0 0.
Definition tf (l : list index) : obj := (ATens (Tens KNonSym "f" 0 l []), 1%Z).

Definition tg_ (l : list index) : obj := (ATens (Tens KNonSym "g" 0 l []), 1%Z).

(* 1/2 delta_ij delta_pj f_pa g_j with targets i, a: two passes give 1/2 f_ia g_i *)
Definition st1 : state := St (1 # 2) [(ADelta ii ij, 1%Z); (ADelta ip ij, 1%Z); tf [ip; ia]; tg_ [ij]].
Definition tg1 := [ii; ia].

Example st1_wf : wf_objs (sobjs st1).
Proof. intros o [<-|[<-|[<-|[<-|[]]]]]; (split; [simpl; discriminate|]); intros x y H; simpl in H;
  try discriminate; inversion H; subst; reflexivity. Qed.
Example st1_covered : covered tg1 (sobjs st1).
Proof. intros x Hx Hn. simpl in Hx, Hn.
  assert (Hc : x = ij \/ x = ip) by intuition congruence.
  destruct Hc as [->| ->].
  - exists (tg_ [ij]). simpl. intuition.
  - exists (tf [ip; ia]). simpl. intuition. Qed.
Example st1_eval : eval_deltas 3 (fun s => s) tg1 st1 = Done (St (1 # 2) [tf [ii; ia]; tg_ [ii]]).
Proof. vm_compute. reflexivity. Qed.
Example st1_pass1 : pr_action (pass tg1 st1) = Some (ij, ii) /\ pr_recurse (pass tg1 st1) = true.
Proof. vm_compute. split; reflexivity. Qed.

Definition env4 : env := fun x => if index_eqb x ia then 2%nat else 0%nat.
Example env4_inrange : inrange QcS T4 env4 tg1.
Proof. intros x [<-|[<-|[]]]; vm_compute; auto. Qed.

(* the instance of the soundness theorem, and the two values computed *)
Example st1_value :
  state_val QcS T4 tg1 env4 (St (1 # 2) [tf [ii; ia]; tg_ [ii]]) = state_val QcS T4 tg1 env4 st1.
Proof. pose proof (eval_deltas_sound QcS T4 T4_orbital_model 3 (fun s => s) tg1 tg1 env4
    (perm_good_step QcS T4 tg1 (fun s => s) (fun st => conj eq_refl (Permutation_refl _)))
    (incl_refl _) env4_inrange st1 st1_wf st1_covered) as H.
  rewrite st1_eval in H. exact H. Qed.
Example st1_value_computed :
  this (state_val QcS T4 tg1 env4 st1) = (319 # 1)%Q /\
  this (state_val QcS T4 tg1 env4 (St (1 # 2) [tf [ii; ia]; tg_ [ii]])) = (319 # 1)%Q.
Proof. vm_compute. split; reflexivity. Qed.

(* ---------- the coverage hypothesis is necessary ---------- *)
(* delta_pq with both indices contracted and nothing else: the code returns 1,
   the value is the number of orbitals *)
Definition st2 : state := St 1 [(ADelta ip iq, 1%Z)].
Example st2_wf : wf_objs (sobjs st2).
Proof. intros o [<-|[]]. split; [simpl; discriminate|]. intros x y H. inversion H; subst. reflexivity. Qed.
Example st2_pass : pr_state (pass [] st2) = Some (St 1 []).
Proof. vm_compute. reflexivity. Qed.
Example st2_values : this (state_val QcS T4 [] env4 st2) = (4 # 1)%Q /\
                     this (state_val QcS T4 [] env4 (St 1 [])) = (1 # 1)%Q.
Proof. vm_compute. split; reflexivity. Qed.

Theorem pass_uncovered_refuted :
  exists (S : Scalar) (T : tmodel S) (tg : list index) (st st' : state) (r : env),
    orbital_model S T /\ wf_objs (sobjs st) /\ inrange S T r tg /\
    pr_state (pass tg st) = Some st' /\
    state_val S T tg r st' <> state_val S T tg r st.
Proof. exists QcS, T4, [], st2, (St 1 []), env4.
  split; [exact T4_orbital_model|]. split; [exact st2_wf|]. split; [intros x []|].
  split; [exact st2_pass|]. intros H. apply (f_equal this) in H.
  destruct st2_values as [H1 H2]. rewrite H1, H2 in H. discriminate. Qed.
