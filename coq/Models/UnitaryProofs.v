(* C20 - proofs about the model of simplify_unitary (Models/Unitary.v). *)
From Coq Require Import ZArith QArith List Bool Lia String Permutation.
From ADC Require Import Core.Scalar Core.Index Core.Expr Core.Swap Core.Canon Core.Equiv.
From ADC Require Import Models.Unitary.
Import ListNotations.

(* ---------- counting ---------- *)
Lemma icount_app x l1 l2 : icount x (l1 ++ l2) = (icount x l1 + icount x l2)%nat.
Proof. induction l1 as [|y l1 IH]; simpl; [reflexivity|]. rewrite IH. lia. Qed.
Lemma icount_perm x l1 l2 : Permutation l1 l2 -> icount x l1 = icount x l2.
Proof. induction 1; simpl; lia. Qed.
Lemma icount_zero x l : icount x l = 0%nat <-> ~ In x l.
Proof. induction l as [|y l IH]; simpl; [tauto|].
  destruct (index_eqb x y) eqn:E.
  - apply index_eqb_eq in E; subst. split; [discriminate|]. intros H; exfalso; apply H; auto.
  - apply index_eqb_neq in E. rewrite Nat.add_0_l, IH. split; [intros H [H1|H1]; [congruence|auto]|tauto]. Qed.
Lemma icount_pos x l : (icount x l > 0)%nat <-> In x l.
Proof. destruct (in_dec index_eq_dec x l) as [H|H].
  - split; [auto|]. intros _. destruct (icount x l) eqn:E; [|lia]. apply icount_zero in E; tauto.
  - split; [|tauto]. apply icount_zero in H. lia. Qed.

Lemma mono_idx_app a b : mono_idx (a ++ b) = mono_idx a ++ mono_idx b.
Proof. unfold mono_idx. apply flat_map_app. Qed.
Lemma mono_idx_cons f fs : mono_idx (f :: fs) = fac_idx f ++ mono_idx fs.
Proof. reflexivity. Qed.
Lemma fac_idx_tens u b : fac_idx (ATens u, b) = tens_idx u.
Proof. reflexivity. Qed.
Lemma mono_idx_perm fs fs' : Permutation fs fs' -> Permutation (mono_idx fs) (mono_idx fs').
Proof. unfold mono_idx. induction 1; simpl.
  - constructor.
  - apply Permutation_app_head; assumption.
  - rewrite !app_assoc. apply Permutation_app_tail. apply Permutation_app_comm.
  - etransitivity; eauto. Qed.


(* ---------- the executable enumeration versus the relation ---------- *)
Lemma splits_In {A} (pre l : list A) a x b :
  In (a, x, b) (splits pre l) <-> exists l1, l = l1 ++ x :: b /\ a = pre ++ l1.
Proof. revert pre. induction l as [|y l IH]; intros pre; simpl.
  - split; [tauto|]. intros [l1 [H _]]. destruct l1; discriminate.
  - rewrite IH. split.
    + intros [H|[l1 [H1 H2]]].
      * inversion H; subst. exists []. rewrite app_nil_r. auto.
      * exists (y :: l1). subst. rewrite <- app_assoc. auto.
    + intros [[|z l1] [H1 H2]]; simpl in H1; inversion H1; subst.
      * left. rewrite app_nil_r. reflexivity.
      * right. exists l1. rewrite <- app_assoc. auto. Qed.

Lemma all_pairs_In {A} (l : list A) x y rest :
  In (x, y, rest) (all_pairs l) <->
  exists l1 l2 l3, l = l1 ++ x :: l2 ++ y :: l3 /\ rest = l1 ++ l2 ++ l3.
Proof. unfold all_pairs. rewrite in_flat_map. split.
  - intros [[[pre x'] post] [H1 H2]]. apply in_map_iff in H2.
    destruct H2 as [[[mid y'] post2] [E H2]]. inversion E; subst.
    apply splits_In in H1, H2. destruct H1 as [l1 [H1 ->]], H2 as [l2 [H2 ->]]. simpl.
    exists l1, l2, post2. subst. auto.
  - intros [l1 [l2 [l3 [-> ->]]]]. exists (l1, x, l2 ++ y :: l3). split.
    + apply splits_In. exists l1. auto.
    + apply in_map_iff. exists (l2, y, l3). split; [reflexivity|].
      apply splits_In. exists l2. auto. Qed.

Lemma all_pairs_perm {A} (l : list A) x y rest :
  In (x, y, rest) (all_pairs l) -> Permutation l (x :: y :: rest).
Proof. rewrite all_pairs_In. intros [l1 [l2 [l3 [-> ->]]]].
  rewrite <- Permutation_middle. constructor.
  rewrite app_assoc. rewrite <- Permutation_middle. rewrite <- app_assoc. reflexivity. Qed.

Lemma perm_pair_found {A} (l : list A) x y rest :
  Permutation l (x :: y :: rest) ->
  exists rest', In (x, y, rest') (all_pairs l) \/ In (y, x, rest') (all_pairs l).
Proof. intros HP.
  assert (Hx : In x l) by (apply (Permutation_in _ (Permutation_sym HP)); left; reflexivity).
  apply in_split in Hx. destruct Hx as [l1 [l2 ->]].
  assert (HP2 : Permutation (l1 ++ l2) (y :: rest)).
  { apply Permutation_cons_inv with (a := x). rewrite Permutation_middle. exact HP. }
  assert (Hy : In y (l1 ++ l2)) by (apply (Permutation_in _ (Permutation_sym HP2)); left; reflexivity).
  apply in_app_or in Hy. destruct Hy as [Hy|Hy]; apply in_split in Hy; destruct Hy as [m1 [m2 ->]].
  - exists (m1 ++ m2 ++ l2). right. apply all_pairs_In. exists m1, m2, l2.
    rewrite <- app_assoc. simpl. auto.
  - exists (l1 ++ m1 ++ m2). left. apply all_pairs_In. exists l1, m1, m2. auto. Qed.

Lemma find_first_some {A B} (f : A -> option B) l b :
  find_first f l = Some b -> exists x, In x l /\ f x = Some b.
Proof. induction l as [|x l IH]; simpl; [discriminate|].
  destruct (f x) eqn:E; [intros H; inversion H; subst; exists x; auto|].
  intros H. destruct (IH H) as [y [H1 H2]]. exists y; auto. Qed.
Lemma find_first_none {A B} (f : A -> option B) l :
  find_first f l = None -> forall x, In x l -> f x = None.
Proof. induction l as [|x l IH]; simpl; [tauto|].
  destruct (f x) eqn:E; [discriminate|]. intros H y [<-|Hy]; auto. Qed.

Lemma named_some name f u : named name f = Some u -> f = (ATens u, false) /\ tname u = name.
Proof. destruct f as [[v|a b|n|s|pl] [|]]; simpl; try discriminate.
  destruct (String.eqb (tname v) name) eqn:E; [|discriminate].
  intros H; inversion H; subst. apply String.eqb_eq in E. auto. Qed.
Lemma named_tens name u : tname u = name -> named name (ATens u, false) = Some u.
Proof. intros <-. simpl. rewrite String.eqb_refl. reflexivity. Qed.
Lemma idx2_some u a b : idx2 u = Some (a, b) <-> tens_idx u = [a; b].
Proof. unfold idx2. destruct (tens_idx u) as [|x [|y [|z l]]]; split; intros H; try discriminate;
  inversion H; reflexivity. Qed.

Lemma pair_rem_some tg ix a0 a1 b0 b1 pos p q r :
  pair_rem tg ix (a0, a1) (b0, b1) = Some (pos, p, q, r) ->
  (if pos then a0 = q /\ a1 = p /\ b0 = r /\ b1 = p else a0 = p /\ a1 = q /\ b0 = p /\ b1 = r)
  /\ ~ In p tg /\ icount p ix = 2%nat /\ skip_pair tg ix q r = false.
Proof. unfold pair_rem.
  destruct (index_eqb a0 b0 && negb (imem a0 tg) && Nat.eqb (icount a0 ix) 2) eqn:E1.
  - destruct (skip_pair tg ix a1 b1) eqn:Sk; [discriminate|].
    intros H; inversion H; subst. rewrite !andb_true_iff, negb_true_iff in E1.
    destruct E1 as [[E1 E2] E3]. apply index_eqb_eq in E1. apply imem_nIn in E2. apply Nat.eqb_eq in E3.
    subst; auto.
  - destruct (index_eqb a1 b1 && negb (imem a1 tg) && Nat.eqb (icount a1 ix) 2) eqn:E2; [|discriminate].
    destruct (skip_pair tg ix a0 b0) eqn:Sk; [discriminate|].
    intros H; inversion H; subst. rewrite !andb_true_iff, negb_true_iff in E2.
    destruct E2 as [[E2 E3] E4]. apply index_eqb_eq in E2. apply imem_nIn in E3. apply Nat.eqb_eq in E4.
    subst; auto. Qed.

Lemma pair_step_sound name tg c fs x y rest w rest' :
  Permutation fs (x :: y :: rest) ->
  pair_step name tg (mono_idx fs) (x, y, rest) = Some (w, rest') ->
  rest' = rest /\
  let '(_, p, q, r) := w in unitary_step name tg (Term c fs) p q r (build c q r rest)
                            /\ skip_pair tg (mono_idx fs) q r = false.
Proof. intros HP. unfold pair_step, try_pair.
  destruct (named name x) as [u1|] eqn:N1; [|discriminate].
  destruct (named name y) as [u2|] eqn:N2; [|discriminate].
  destruct (idx2 u1) as [[a0 a1]|] eqn:I1; [|discriminate].
  destruct (idx2 u2) as [[b0 b1]|] eqn:I2; [|discriminate].
  destruct (pair_rem tg (mono_idx fs) (a0, a1) (b0, b1)) as [[[[pos p] q] r]|] eqn:PR; [|discriminate].
  intros H; injection H as Hw Hr. subst w rest'. split; [reflexivity|]. cbv beta iota.
  apply named_some in N1, N2. destruct N1 as [-> N1], N2 as [-> N2].
  apply idx2_some in I1, I2. apply pair_rem_some in PR. destruct PR as [Hpos [Hp [Hc Hsk]]].
  split; [|exact Hsk].
  apply (UStep name tg c fs u1 u2 rest pos p q r); auto.
  destruct pos; destruct Hpos as [-> [-> [-> ->]]]; auto. Qed.

(* a successful pass is a step of the relation that is not of the skipped kind *)
Lemma unitary_pass_sound_skip name tg t pos p q r t' :
  unitary_pass_tg name tg t = RStep (pos, p, q, r) t' ->
  unitary_step name tg t p q r t' /\ skip_pair tg (term_idx t) q r = false.
Proof. unfold unitary_pass_tg. destruct (existsb (bad_u name) (tfacs t)); [discriminate|].
  destruct (find_first (pair_step name tg (term_idx t)) (all_pairs (tfacs t)))
    as [[[[[pos' p'] q'] r'] rest1]|] eqn:F; [|discriminate].
  intros H. apply find_first_some in F. destruct F as [[[x y] rest0] [Hin Hst]].
  pose proof (all_pairs_perm _ _ _ _ Hin) as HP. destruct t as [c fs]; simpl in *.
  destruct (pair_step_sound name tg c fs x y rest0 _ _ HP Hst) as [E Hs].
  inversion H; subst. exact Hs. Qed.
Theorem unitary_pass_sound name tg t pos p q r t' :
  unitary_pass_tg name tg t = RStep (pos, p, q, r) t' -> unitary_step name tg t p q r t'.
Proof. intros H. apply unitary_pass_sound_skip in H. tauto. Qed.

Theorem succs_sound name tg t pos p q r t' :
  In ((pos, p, q, r), t') (succs name tg t) -> unitary_step name tg t p q r t'.
Proof. unfold succs. rewrite in_flat_map. intros [[[x y] rest] [Hin H]].
  destruct (pair_step name tg (term_idx t) (x, y, rest)) as [[w rest']|] eqn:E; [|destruct H].
  destruct w as [[[pos' p'] q'] r']. destruct H as [H|[]]. inversion H; subst.
  pose proof (all_pairs_perm _ _ _ _ Hin) as HP. destruct t as [c fs]; simpl in *.
  destruct (pair_step_sound name tg c fs x y rest _ _ HP E) as [-> Hs]. tauto. Qed.

(* ---------- every step the executable pass takes satisfies the side condition ----------
   (the guard added to the code: a pair whose remaining indices coincide in a
   contracted index that occurs nowhere else is skipped) *)
Lemma build_one c q rest : build c q q rest = Term c rest.
Proof. unfold build, mk_delta. rewrite index_eqb_refl. reflexivity. Qed.
Lemma step_side_of_noskip name tg t p q r t' :
  unitary_step name tg t p q r t' -> skip_pair tg (term_idx t) q r = false ->
  q <> r \/ In q tg \/ In q (term_idx t').
Proof. intros Hstep Hsk.
  destruct Hstep as [c fs u1 u2 rest pos p q r HP N1 N2 Hidx Hptg Hcnt].
  destruct (index_eq_dec q r) as [<-|Hne]; [|left; exact Hne].
  destruct (in_dec index_eq_dec q tg) as [Hq|Hq]; [right; left; exact Hq|].
  right; right. rewrite build_one. unfold term_idx in *; cbn [tfacs] in *.
  unfold skip_pair in Hsk. rewrite index_eqb_refl in Hsk. apply imem_nIn in Hq. rewrite Hq in Hsk.
  simpl in Hsk. apply Nat.eqb_neq in Hsk.
  rewrite (icount_perm q _ _ (mono_idx_perm _ _ HP)) in Hsk.
  rewrite (icount_perm p _ _ (mono_idx_perm _ _ HP)) in Hcnt.
  rewrite !mono_idx_cons, !fac_idx_tens, !icount_app in Hsk, Hcnt.
  apply icount_pos.
  destruct pos; destruct Hidx as [I1 I2]; rewrite I1, I2 in Hsk, Hcnt; simpl in Hsk, Hcnt;
    rewrite !index_eqb_refl in Hsk, Hcnt;
    destruct (index_eqb q p) eqn:E1; destruct (index_eqb p q) eqn:E2; simpl in Hsk, Hcnt; try lia;
    try (apply index_eqb_eq in E1; subst; rewrite index_eqb_refl in E2; discriminate);
    try (apply index_eqb_eq in E2; subst; rewrite index_eqb_refl in E1; discriminate). Qed.
Theorem unitary_pass_safe name tg t pos p q r t' :
  unitary_pass_tg name tg t = RStep (pos, p, q, r) t' ->
  q <> r \/ In q tg \/ In q (term_idx t').
Proof. intros H. apply unitary_pass_sound_skip in H. destruct H as [H1 H2].
  eapply step_side_of_noskip; eauto. Qed.

(* the enumeration is complete: if the pass finds nothing, the only steps of
   the relation are of the skipped kind *)
Lemma try_pair_step name tg ix u1 u2 (pos : bool) p q r :
  tname u1 = name -> tname u2 = name ->
  (if pos then tens_idx u1 = [q; p] /\ tens_idx u2 = [r; p]
   else tens_idx u1 = [p; q] /\ tens_idx u2 = [p; r]) ->
  ~ In p tg -> icount p ix = 2%nat -> skip_pair tg ix q r = false ->
  try_pair name tg ix (ATens u1, false) (ATens u2, false) <> None.
Proof. intros N1 N2 Hidx Hp Hc Hsk. unfold try_pair. rewrite (named_tens _ _ N1), (named_tens _ _ N2).
  apply imem_nIn in Hp. apply Nat.eqb_eq in Hc.
  destruct pos; destruct Hidx as [I1 I2]; apply idx2_some in I1, I2; rewrite I1, I2; unfold pair_rem.
  - fold (skip_pair tg ix q r). rewrite Hsk. rewrite index_eqb_refl, Hp, Hc. simpl. discriminate.
  - rewrite index_eqb_refl, Hp, Hc. simpl. rewrite Hsk. discriminate. Qed.
Lemma skip_pair_sym tg ix q r : skip_pair tg ix r q = skip_pair tg ix q r.
Proof. unfold skip_pair. destruct (index_eq_dec q r) as [->|H]; [reflexivity|].
  assert (E : index_eqb q r = false) by (apply index_eqb_neq; exact H).
  rewrite (index_eqb_sym r q), E. reflexivity. Qed.

Theorem unitary_pass_complete name tg t :
  unitary_pass_tg name tg t = RNone ->
  forall p q r t', unitary_step name tg t p q r t' -> skip_pair tg (term_idx t) q r = true.
Proof. unfold unitary_pass_tg. destruct (existsb (bad_u name) (tfacs t)); [discriminate|].
  destruct (find_first (pair_step name tg (term_idx t)) (all_pairs (tfacs t)))
    as [[[[[pos' p'] q'] r'] rest1]|] eqn:F; [discriminate|].
  intros _ p q r t' Hstep.
  destruct (skip_pair tg (term_idx t) q r) eqn:Hsk; [reflexivity|exfalso].
  destruct Hstep as [c fs u1 u2 rest pos p q r HP N1 N2 Hidx Hptg Hcnt].
  unfold term_idx in Hsk; cbn [tfacs] in Hsk.
  destruct (perm_pair_found _ _ _ _ HP) as [rest' [Hin|Hin]];
    pose proof (find_first_none _ _ F _ Hin) as Hn; unfold pair_step in Hn; simpl in Hn.
  - pose proof (try_pair_step name tg (mono_idx fs) u1 u2 pos p q r N1 N2 Hidx Hptg Hcnt Hsk) as Hne.
    unfold term_idx in Hn; simpl in Hn.
    destruct (try_pair name tg (mono_idx fs) (ATens u1, false) (ATens u2, false)); [discriminate|tauto].
  - assert (Hidx' : if pos then tens_idx u2 = [r; p] /\ tens_idx u1 = [q; p]
                    else tens_idx u2 = [p; r] /\ tens_idx u1 = [p; q]) by (destruct pos; tauto).
    rewrite <- skip_pair_sym in Hsk.
    pose proof (try_pair_step name tg (mono_idx fs) u2 u1 pos p r q N2 N1 Hidx' Hptg Hcnt Hsk) as Hne.
    unfold term_idx in Hn; simpl in Hn.
    destruct (try_pair name tg (mono_idx fs) (ATens u2, false) (ATens u1, false)); [discriminate|tauto].
Qed.

(* pairs whose common index is a target or occurs a third time admit no step *)
Theorem untouched_spec name tg t p q r t' :
  In p tg \/ icount p (term_idx t) <> 2%nat -> ~ unitary_step name tg t p q r t'.
Proof. intros H Hstep. destruct Hstep as [c fs u1 u2 rest pos p q r HP N1 N2 Hidx Hptg Hcnt].
  unfold term_idx in H; simpl in H. tauto. Qed.
Corollary pass_untouched name tg t pos p q r t' :
  unitary_pass_tg name tg t = RStep (pos, p, q, r) t' ->
  ~ In p tg /\ icount p (term_idx t) = 2%nat.
Proof. intros H. apply unitary_pass_sound in H.
  destruct H as [c fs u1 u2 rest pos' p q r HP N1 N2 Hidx Hptg Hcnt]. auto. Qed.

(* every term the recursion returns admits no further step (but skipped ones) *)
Lemma iter_all_In (g : term -> option (list term)) ts out x :
  iter_all g ts = Some out -> In x out -> exists t o, In t ts /\ g t = Some o /\ In x o.
Proof. revert out. induction ts as [|t r IH]; simpl; intros out H Hx.
  - inversion H; subst. destruct Hx.
  - destruct (g t) as [a|] eqn:E1; [|discriminate]. destruct (iter_all g r) as [b|] eqn:E2; [|discriminate].
    inversion H; subst. apply in_app_or in Hx. destruct Hx as [Hx|Hx].
    + exists t, a. auto.
    + destruct (IH b eq_refl Hx) as [t0 [o [H1 [H2 H3]]]]. exists t0, o. auto. Qed.
Lemma unitary_iter_terminal fuel name prov t out t' :
  unitary_iter fuel name prov t = Some out -> In t' out -> unitary_pass name prov t' = RNone.
Proof. revert t out. induction fuel as [|f IH]; intros t out; simpl; [discriminate|].
  destruct (unitary_pass name prov t) eqn:E; [discriminate| |].
  - intros H Hx; inversion H; subst. destruct Hx as [<-|[]]. exact E.
  - intros H Hx. destruct (iter_all_In _ _ _ _ H Hx) as [tt0 [o [H1 [H2 H3]]]]. eapply IH; eauto. Qed.
Theorem terminal_spec fuel name prov t out t' :
  unitary_iter fuel name prov t = Some out -> In t' out ->
  forall p q r t'', unitary_step name (targets_of prov t') t' p q r t'' ->
                    skip_pair (targets_of prov t') (term_idx t') q r = true.
Proof. intros H Hx. pose proof (unitary_iter_terminal _ _ _ _ _ _ H Hx) as Hn.
  apply unitary_pass_complete. exact Hn. Qed.

Section Sums.
Variable S : Scalar.
Variable T : tmodel S.
Notation "0" := (k0 S). Notation "1" := (k1 S).
Infix "+" := (kadd S). Infix "*" := (kmul S).
Add Ring KRU : (Kring S).

Lemma sum_over_snoc xs p r F :
  sum_over S T (xs ++ [p]) r F =
  sum_over S T xs r (fun r' => ksum (irange S T p) (fun o => F (upd r' p o))).
Proof. revert r. induction xs as [|x xs IH]; intros r; simpl; [reflexivity|].
  apply ksum_ext. intros o _. apply IH. Qed.

(* extensionality restricted to the environments the sum really visits *)
Lemma sum_over_ext_in xs F G r :
  (forall r', (forall x, In x xs -> In (r' x) (irange S T x)) ->
              (forall x, ~ In x xs -> r' x = r x) -> F r' = G r') ->
  sum_over S T xs r F = sum_over S T xs r G.
Proof. revert r. induction xs as [|x xs IH]; intros r H; simpl.
  - apply H; [intros y []|reflexivity].
  - apply ksum_ext. intros o Ho. apply IH. intros r' Hin Hout. apply H.
    + intros y [<-|Hy]; [|apply Hin; exact Hy].
      destruct (in_dec index_eq_dec x xs) as [Hx|Hx]; [apply Hin; exact Hx|].
      rewrite (Hout x Hx). unfold upd. rewrite index_eqb_refl. exact Ho.
    + intros y Hy. rewrite Hout by (intros Hy'; apply Hy; right; exact Hy').
      unfold upd. destruct (index_eqb y x) eqn:E; [|reflexivity].
      apply index_eqb_eq in E; subst. exfalso; apply Hy; left; reflexivity. Qed.

Lemma ksum_scal_r {A} (l : list A) c f : ksum l (fun x => f x * c) = ksum l f * c.
Proof. induction l; simpl; [ring|rewrite IHl; ring]. Qed.

(* ---------- the orthogonality rewriting at the level of sums ----------
   A, B: two matrices with  sum_{o in R} A o x * B o y = [x = y]  on R = range p;
   F: arbitrary remainder that does not depend on p.  Then the sum over p can
   be carried out:   sum_{xs,p} A(p,q) B(p,r) F  =  sum_{xs} delta(q,r) F. *)
Lemma orth_sum_rewrite (A B : nat -> nat -> K S) (D xs : list index) (p q r : index)
      (F : env -> K S) (r0 : env) :
  depends_on S D F -> ~ In p D -> p <> q -> p <> r ->
  irange S T q = irange S T p -> irange S T r = irange S T p ->
  (forall x y, In x (irange S T p) -> In y (irange S T p) ->
     ksum (irange S T p) (fun o => A o x * B o y) = if Nat.eqb x y then 1 else 0) ->
  (In q xs \/ In (r0 q) (irange S T q)) -> (In r xs \/ In (r0 r) (irange S T r)) ->
  sum_over S T (xs ++ [p]) r0 (fun e => A (e p) (e q) * B (e p) (e r) * F e) =
  sum_over S T xs r0 (fun e => delta_val S e q r * F e).
Proof. intros HF HpD Hpq Hpr Rq Rr Horth Hq Hr.
  rewrite sum_over_snoc. apply sum_over_ext_in. intros e Hin Hout.
  assert (Eq : In (e q) (irange S T p)).
  { rewrite <- Rq. destruct Hq as [Hq|Hq]; [apply Hin; exact Hq|].
    destruct (in_dec index_eq_dec q xs) as [Hx|Hx]; [apply Hin; exact Hx|rewrite Hout; assumption]. }
  assert (Er : In (e r) (irange S T p)).
  { rewrite <- Rr. destruct Hr as [Hr|Hr]; [apply Hin; exact Hr|].
    destruct (in_dec index_eq_dec r xs) as [Hx|Hx]; [apply Hin; exact Hx|rewrite Hout; assumption]. }
  rewrite (ksum_ext S _ _ (fun o => (A o (e q) * B o (e r)) * F e)).
  - rewrite ksum_scal_r. rewrite (Horth _ _ Eq Er). unfold delta_val. reflexivity.
  - intros o _. unfold upd at 1 2 3 4. rewrite index_eqb_refl.
    assert (E1 : index_eqb q p = false) by (apply index_eqb_neq; congruence).
    assert (E2 : index_eqb r p = false) by (apply index_eqb_neq; congruence).
    rewrite E1, E2. f_equal. apply HF. intros y Hy. unfold upd.
    destruct (index_eqb y p) eqn:E; [|reflexivity]. apply index_eqb_eq in E; subst. tauto. Qed.

(* ---------- two-index tensors as matrices ---------- *)
Definition carrier := (kind * Z * nat)%type.      (* tensor class, bra-ket symmetry, #upper *)
Definition carrier_of (u : tens) : carrier := (tkind u, tbks u, List.length (tupper u)).
Definition mat (name : string) (c : carrier) (x y : nat) : K S :=
  let '(k, b, n) := c in tv T k name b (firstn n [x; y]) (skipn n [x; y]).
Lemma tens_val_mat u a b e : tens_idx u = [a; b] ->
  tens_val S T e u = mat (tname u) (carrier_of u) (e a) (e b).
Proof. unfold tens_idx, tens_val, mat, carrier_of. destruct u as [k n bks up lo]; simpl.
  destruct up as [|a1 [|a2 [|a3 up]]]; destruct lo as [|b1 [|b2 [|b3 lo]]]; simpl; intros H;
    try discriminate; inversion H; subst; reflexivity. Qed.

(* the tensor called [name] is one orthogonal matrix on the range R, whatever
   tensor class carries it *)
Definition orthogonal (name : string) (R : list nat) : Prop :=
  forall c1 c2 x y, In x R -> In y R ->
    ksum R (fun o => mat name c1 o x * mat name c2 o y) = (if Nat.eqb x y then 1 else 0) /\
    ksum R (fun o => mat name c1 x o * mat name c2 y o) = (if Nat.eqb x y then 1 else 0).

(* ---------- from sums to terms ---------- *)
Lemma mono_val_perm e fs fs' : Permutation fs fs' -> mono_val S T e fs = mono_val S T e fs'.
Proof. intros H. unfold mono_val. apply kprod_perm. apply Permutation_map. exact H. Qed.

Lemma contracted_In tg t x : In x (contracted tg t) <-> In x (term_idx t) /\ ~ In x tg.
Proof. unfold contracted, contracted_of. rewrite filter_In, inodup_In.
  split; intros [H1 H2]; split; auto.
  - apply imem_nIn. destruct (imem x tg); [discriminate|reflexivity].
  - apply imem_nIn in H2. rewrite H2. reflexivity. Qed.

Lemma dval_sym e i j : delta_val S e i j = delta_val S e j i.
Proof. unfold delta_val. rewrite Nat.eqb_sym. reflexivity. Qed.
Lemma dval_idem e i j : delta_val S e i j * delta_val S e i j = delta_val S e i j.
Proof. unfold delta_val. destruct (Nat.eqb (e i) (e j)); ring. Qed.
Lemma dval_refl e i : delta_val S e i i = 1.
Proof. unfold delta_val. rewrite Nat.eqb_refl. reflexivity. Qed.

(* the generic form: t' is any term whose pointwise value is delta(q,r) * c * rest
   and whose non-target indices are q, r and those of rest *)
Lemma step_value_gen name tg r0 c fs u1 u2 rest (pos : bool) p q r t' :
  Permutation fs ((ATens u1, false) :: (ATens u2, false) :: rest) ->
  tname u1 = name -> tname u2 = name ->
  (if pos then tens_idx u1 = [q; p] /\ tens_idx u2 = [r; p]
   else tens_idx u1 = [p; q] /\ tens_idx u2 = [p; r]) ->
  ~ In p tg -> icount p (mono_idx fs) = 2%nat ->
  irange S T q = irange S T p -> irange S T r = irange S T p ->
  orthogonal name (irange S T p) ->
  (forall x, In x tg -> In (r0 x) (irange S T x)) ->
  (forall e, term_val S T e t' = delta_val S e q r * (ofQ S c * mono_val S T e rest)) ->
  (forall x, ~ In x tg -> (In x (term_idx t') <-> x = q \/ x = r \/ In x (mono_idx rest))) ->
  eval_term S T tg r0 (Term c fs) = eval_term S T tg r0 t'.
Proof. intros HP N1 N2 Hidx Hptg Hcnt Rq Rr Horth Hrng Hval Hix.
  set (fs0 := (ATens u1, false) :: (ATens u2, false) :: rest) in *.
  (* p occurs only in the two tensors *)
  assert (Hc0 : icount p (mono_idx fs0) = 2%nat)
    by (rewrite <- (icount_perm p _ _ (mono_idx_perm _ _ HP)); exact Hcnt).
  assert (Hfacts : p <> q /\ p <> r /\ ~ In p (mono_idx rest)).
  { unfold fs0 in Hc0. rewrite !mono_idx_cons, !fac_idx_tens, !icount_app in Hc0.
    destruct pos; destruct Hidx as [I1 I2]; rewrite I1, I2 in Hc0; simpl in Hc0;
      rewrite index_eqb_refl in Hc0;
      destruct (index_eqb p q) eqn:E1; destruct (index_eqb p r) eqn:E2; simpl in Hc0; try lia;
      apply index_eqb_neq in E1, E2; repeat split; auto; apply icount_zero; lia. }
  destruct Hfacts as [Hpq [Hpr Hprest]].
  assert (Hidx0 : forall x, In x (mono_idx fs0) <-> x = p \/ x = q \/ x = r \/ In x (mono_idx rest)).
  { intros x. unfold fs0. rewrite !mono_idx_cons, !fac_idx_tens, !in_app_iff. destruct pos; destruct Hidx as [I1 I2]; rewrite I1, I2; simpl; intuition. }
  assert (Hpt' : ~ In p (term_idx t')).
  { rewrite (Hix p Hptg). intros [H|[H|H]]; [apply Hpq|apply Hpr|apply Hprest]; auto. }
  unfold eval_term at 1.
  (* reorder the contracted indices: p innermost *)
  assert (HPc : Permutation (contracted tg (Term c fs)) (contracted tg t' ++ [p])).
  { apply NoDup_Permutation.
    - apply contracted_NoDup.
    - apply (Permutation_NoDup (Permutation_cons_append (contracted tg t') p)).
      constructor; [|apply contracted_NoDup]. rewrite contracted_In. tauto.
    - intros x. rewrite in_app_iff, !contracted_In. unfold term_idx at 1; simpl.
      assert (Hx : In x (mono_idx fs) <-> In x (mono_idx fs0)).
      { split; apply Permutation_in; [|apply Permutation_sym]; apply mono_idx_perm; exact HP. }
      rewrite Hx, Hidx0. simpl. split.
      + intros [[->|H] Hn]; [right; left; reflexivity|]. left. split; [|exact Hn].
        apply (Hix x Hn). exact H.
      + intros [[H Hn]|[<-|[]]]; [|tauto]. split; [|exact Hn]. right. apply (Hix x Hn). exact H. }
  rewrite (sum_over_perm S T (term_idx (Term c fs)) _ _ _ r0
             (fun e1 e2 He => term_val_agree S T (Term c fs) e1 e2 He)
             (contracted_NoDup tg (Term c fs)) HPc).
  set (c1 := carrier_of u1). set (c2 := carrier_of u2).
  set (A := fun o x : nat => if pos then mat name c1 x o else mat name c1 o x).
  set (B := fun o y : nat => if pos then mat name c2 y o else mat name c2 o y).
  set (F := fun e : env => ofQ S c * mono_val S T e rest).
  rewrite (sum_over_ext S T _ _ (fun e => A (e p) (e q) * B (e p) (e r) * F e)).
  2:{ intros e. unfold term_val; simpl. rewrite (mono_val_perm e _ _ HP).
      unfold fs0, mono_val; simpl. fold (mono_val S T e rest). unfold fac_val; simpl.
      unfold A, B, F, c1, c2.
      destruct pos; destruct Hidx as [I1 I2];
        rewrite (tens_val_mat u1 _ _ e I1), (tens_val_mat u2 _ _ e I2), N1, N2; ring. }
  rewrite (orth_sum_rewrite A B (mono_idx rest) (contracted tg t') p q r F r0).
  - unfold eval_term. apply sum_over_ext. intros e. rewrite Hval. reflexivity.
  - intros e1 e2 He. unfold F. rewrite (mono_val_agree S T rest e1 e2 He). reflexivity.
  - exact Hprest.
  - exact Hpq.
  - exact Hpr.
  - exact Rq.
  - exact Rr.
  - intros x y Hx Hy. unfold A, B. destruct (Horth c1 c2 x y Hx Hy) as [O1 O2].
    destruct pos; assumption.
  - destruct (in_dec index_eq_dec q tg) as [Hq|Hq]; [right; apply Hrng; exact Hq|].
    left. apply contracted_In. split; [|exact Hq]. apply (Hix q Hq). auto.
  - destruct (in_dec index_eq_dec r tg) as [Hr|Hr]; [right; apply Hrng; exact Hr|].
    left. apply contracted_In. split; [|exact Hr]. apply (Hix r Hr). auto.
Qed.

(* ---------- the term that the code builds ---------- *)
Lemma delta_in_rest_val e q r rest : existsb (is_delta_fac q r) rest = true ->
  delta_val S e q r * mono_val S T e rest = mono_val S T e rest.
Proof. unfold mono_val. induction rest as [|f rest IH]; simpl; [discriminate|].
  set (X := kprod (map (fac_val S T e) rest)) in *.
  rewrite orb_true_iff. intros [H|H].
  - destruct f as [[u|a b|n|s|pl] [|]]; simpl in H; try discriminate.
    change (fac_val S T e (ADelta a b, false)) with (delta_val S e a b).
    rewrite orb_true_iff, !andb_true_iff, !index_eqb_eq in H.
    destruct H as [[-> ->]|[-> ->]].
    + transitivity ((delta_val S e q r * delta_val S e q r) * X); [ring|].
      rewrite dval_idem. reflexivity.
    + rewrite (dval_sym e r q).
      transitivity ((delta_val S e q r * delta_val S e q r) * X); [ring|].
      rewrite dval_idem. reflexivity.
  - transitivity (fac_val S T e f * (delta_val S e q r * X)); [ring|].
    rewrite (IH H). reflexivity. Qed.
Lemma delta_in_rest_idx q r rest : existsb (is_delta_fac q r) rest = true ->
  In q (mono_idx rest) /\ In r (mono_idx rest).
Proof. induction rest as [|f rest IH]; [simpl; discriminate|]. cbn [existsb].
  rewrite orb_true_iff, mono_idx_cons, !in_app_iff. intros [H|H].
  - destruct f as [[u|a b|n|s|pl] [|]]; simpl in H; try discriminate.
    rewrite orb_true_iff, !andb_true_iff, !index_eqb_eq in H. unfold fac_idx; simpl.
    destruct H as [[-> ->]|[-> ->]]; tauto.
  - destruct (IH H); tauto. Qed.

Lemma delta_zero_same_sort q r : same_sort q r = true -> delta_zero q r = false.
Proof. intros H. apply same_sort_eq in H. destruct H as [H1 H2]. unfold delta_zero.
  rewrite H1, H2.
  replace (space_eqb (ispace r) (ispace r)) with true by (symmetry; apply space_eqb_eq; reflexivity).
  replace (spin_eqb (ispin r) (ispin r)) with true by (symmetry; apply spin_eqb_eq; reflexivity).
  simpl. rewrite !andb_false_r. reflexivity. Qed.
Lemma irange_same_sort a b : same_sort a b = true -> irange S T a = irange S T b.
Proof. intros H. apply same_sort_eq in H. destruct H as [H1 H2]. unfold irange. rewrite H1, H2. reflexivity. Qed.

Lemma build_val c q r rest e : delta_zero q r = false ->
  term_val S T e (build c q r rest) = delta_val S e q r * (ofQ S c * mono_val S T e rest).
Proof. intros Hz. unfold build, mk_delta. destruct (index_eqb q r) eqn:E.
  - apply index_eqb_eq in E; subst. rewrite dval_refl. unfold term_val; simpl. ring.
  - rewrite Hz. destruct (existsb (is_delta_fac q r) rest) eqn:Ex.
    + unfold term_val; simpl. rewrite <- (delta_in_rest_val e q r rest Ex) at 1. ring.
    + unfold term_val, mono_val; simpl. unfold fac_val; simpl.
      destruct (idx_leb q r); simpl; [|rewrite (dval_sym e r q)]; ring. Qed.
Lemma build_idx c q r rest x : delta_zero q r = false ->
  (q <> r \/ In q (term_idx (build c q r rest)) \/ x <> q) ->
  (In x (term_idx (build c q r rest)) <-> x = q \/ x = r \/ In x (mono_idx rest)).
Proof. intros Hz. unfold build, mk_delta. destruct (index_eqb q r) eqn:E.
  - apply index_eqb_eq in E; subst. unfold term_idx; simpl. intros [H|[H|H]]; [congruence| |].
    + split; [tauto|]. intros [->|[->|H1]]; assumption.
    + split; [tauto|]. intros [->|[->|H1]]; [congruence|congruence|assumption].
  - rewrite Hz. intros _. destruct (existsb (is_delta_fac q r) rest) eqn:Ex.
    + unfold term_idx; simpl. destruct (delta_in_rest_idx q r rest Ex) as [H1 H2].
      split; [tauto|]. intros [->|[->|H]]; assumption.
    + unfold term_idx; cbn [tfacs]. rewrite mono_idx_cons, in_app_iff. unfold fac_idx; cbn [fst].
      destruct (idx_leb q r); simpl; intuition. Qed.

(* ---------- one step preserves the value ----------
   for every tensor model in which [name] is an orthogonal matrix on the range
   of the sort of p, q, r, for every assignment of the targets within their
   ranges - provided the two remaining indices are distinct, or the
   coinciding index is a target or still occurs in the result. *)
Theorem unitary_step_sound name tg t p q r t' r0 :
  unitary_step name tg t p q r t' ->
  same_sort q p = true -> same_sort r p = true ->
  orthogonal name (irange S T p) ->
  (forall x, In x tg -> In (r0 x) (irange S T x)) ->
  (q <> r \/ In q tg \/ In q (term_idx t')) ->
  eval_term S T tg r0 t = eval_term S T tg r0 t'.
Proof. intros Hstep Sq Sr Horth Hrng Hside.
  destruct Hstep as [c fs u1 u2 rest pos p q r HP N1 N2 Hidx Hptg Hcnt].
  assert (Hz : delta_zero q r = false).
  { apply delta_zero_same_sort. apply same_sort_eq in Sq, Sr. destruct Sq as [A1 A2], Sr as [B1 B2].
    unfold same_sort. rewrite A1, A2, B1, B2.
    apply andb_true_iff; split; [apply space_eqb_eq|apply spin_eqb_eq]; reflexivity. }
  apply (step_value_gen name tg r0 c fs u1 u2 rest pos p q r); auto.
  - apply irange_same_sort; exact Sq.
  - apply irange_same_sort; exact Sr.
  - intros e. apply build_val; exact Hz.
  - intros x Hx. apply build_idx; [exact Hz|].
    destruct Hside as [H|[H|H]]; [left; exact H| |right; left; exact H].
    right; right. intros ->. apply Hx; exact H.
Qed.

(* ---------- terms modulo factor order, target lists modulo order ---------- *)
Lemma eval_term_equiv tg r0 t1 t2 :
  (forall e, term_val S T e t1 = term_val S T e t2) ->
  (forall x, In x (term_idx t1) <-> In x (term_idx t2)) ->
  eval_term S T tg r0 t1 = eval_term S T tg r0 t2.
Proof. intros Hv Hi. unfold eval_term.
  rewrite (sum_over_perm S T (term_idx t1) _ (contracted tg t2) _ r0
             (fun e1 e2 He => term_val_agree S T t1 e1 e2 He) (contracted_NoDup tg t1)).
  - apply sum_over_ext. exact Hv.
  - apply NoDup_Permutation; [apply contracted_NoDup|apply contracted_NoDup|].
    intros x. rewrite !contracted_In, Hi. tauto. Qed.

Lemma poly_lead_nz p : ~ (poly_lead p == 0)%Q.
Proof. unfold poly_lead. destruct p as [|[c ts] p]; [discriminate|].
  destruct (Qeq_bool c 0) eqn:E; [discriminate|]. apply Qeq_bool_neq. exact E. Qed.
Lemma poly_idx_perm p p' : Permutation p p' -> forall x, In x (poly_idx p) <-> In x (poly_idx p').
Proof. intros HP x. unfold poly_idx. rewrite !in_flat_map. split; intros [qt [H1 H2]]; exists qt; split; auto.
  - apply (Permutation_in _ HP); exact H1.
  - apply (Permutation_in _ (Permutation_sym HP)); exact H1. Qed.
Lemma poly_monic_val e p :
  poly_val S T e p = ofQ S (fst (poly_monic p)) * poly_val S T e (snd (poly_monic p)).
Proof. unfold poly_monic; cbn [fst snd]. unfold poly_val.
  rewrite (ksum_perm S _ _ _ (ksort_perm code_pterm p)).
  set (p' := ksort code_pterm p). pose proof (poly_lead_nz p') as Hnz.
  set (c1 := poly_lead p') in *.
  rewrite ksum_map, <- ksum_scal. apply ksum_ext. intros [c ts] _. unfold pterm_val; cbn [fst snd].
  rewrite (ofQ_eq S _ _ (Qred_correct (c / c1))).
  transitivity (ofQ S (c1 * (c / c1)) * kprod (map (tens_val S T e) ts)).
  - f_equal. apply ofQ_eq. symmetry. apply Qmult_div_r. exact Hnz.
  - rewrite ofQ_mul. ring. Qed.
Lemma poly_monic_idx p x : In x (poly_idx (snd (poly_monic p))) <-> In x (poly_idx p).
Proof. unfold poly_monic; cbn [snd].
  rewrite (poly_idx_perm p _ (ksort_perm code_pterm p)).
  unfold poly_idx. rewrite !in_flat_map. split.
  - intros [qt [H1 H2]]. apply in_map_iff in H1. destruct H1 as [qt' [<- H1]]. exists qt'. auto.
  - intros [qt [H1 H2]]. exists (Qred (fst qt / poly_lead (ksort code_pterm p)), snd qt). split; [|exact H2].
    apply in_map_iff. exists qt. auto. Qed.

Lemma norm_fac_val e f :
  fac_val S T e f = ofQ S (fst (norm_fac f)) * fac_val S T e (snd (norm_fac f)).
Proof. destruct f as [[u|a b|n|s|pl] [|]]; cbn [norm_fac fst snd]; rewrite ?ofQ_1; try ring.
  - destruct (idx_leb a b); [ring|]. unfold fac_val; simpl. rewrite (dval_sym e b a). ring.
  - destruct (idx_leb a b); [ring|]. unfold fac_val; simpl. rewrite (dval_sym e b a). ring.
  - pose proof (poly_monic_val e pl) as H. destruct (poly_monic pl) as [c p']. cbn [fst snd] in *.
    unfold fac_val; simpl. exact H. Qed.
Lemma norm_fac_idx f x : In x (fac_idx (snd (norm_fac f))) <-> In x (fac_idx f).
Proof. destruct f as [[u|a b|n|s|pl] [|]]; cbn [norm_fac fst snd]; try tauto.
  - destruct (idx_leb a b); unfold fac_idx; simpl; tauto.
  - destruct (idx_leb a b); unfold fac_idx; simpl; tauto.
  - pose proof (poly_monic_idx pl x) as H. destruct (poly_monic pl) as [c p']. cbn [fst snd] in *.
    unfold fac_idx; simpl. exact H. Qed.

Lemma ofQ_qprod l : ofQ S (qprod l) = kprod (map (ofQ S) l).
Proof. induction l; simpl; [apply ofQ_1|]. rewrite ofQ_mul, IHl. reflexivity. Qed.
Lemma norm_facs_val e fs :
  mono_val S T e fs =
  ofQ S (qprod (map fst (map norm_fac fs))) * mono_val S T e (map snd (map norm_fac fs)).
Proof. unfold mono_val. induction fs as [|f fs IH]; simpl; [rewrite ofQ_1; ring|].
  rewrite ofQ_mul, IH, (norm_fac_val e f). ring. Qed.

Lemma norm_term_eval tg r0 t : eval_term S T tg r0 (norm_term t) = eval_term S T tg r0 t.
Proof. apply eval_term_equiv.
  - intros e. unfold term_val, norm_term; cbn [tcoef tfacs].
    rewrite (ofQ_eq S _ _ (Qred_correct _)), ofQ_mul.
    rewrite <- (mono_val_perm e _ _ (ksort_perm code_fac (map snd (map norm_fac (tfacs t))))).
    rewrite (norm_facs_val e (tfacs t)). ring.
  - intros x. unfold term_idx, norm_term; cbn [tfacs]. split; intros H.
    + apply (Permutation_in _ (Permutation_sym (mono_idx_perm _ _ (ksort_perm code_fac (map snd (map norm_fac (tfacs t))))))) in H.
      unfold mono_idx in *. rewrite in_flat_map in *. destruct H as [f [H1 H2]].
      rewrite map_map in H1. apply in_map_iff in H1. destruct H1 as [g [<- H1]]. exists g. split; [exact H1|].
      apply norm_fac_idx. exact H2.
    + apply (Permutation_in _ (mono_idx_perm _ _ (ksort_perm code_fac (map snd (map norm_fac (tfacs t)))))).
      unfold mono_idx in *. rewrite in_flat_map in *. destruct H as [f [H1 H2]].
      exists (snd (norm_fac f)). split; [rewrite map_map; apply (in_map (fun g => snd (norm_fac g))); exact H1|apply norm_fac_idx; exact H2]. Qed.

Lemma term_eqb_eq a b : term_eqb a b = true -> a = b.
Proof. destruct a, b; unfold term_eqb; simpl. rewrite andb_true_iff. intros [H1 H2].
  apply q_eqb_eq in H1. apply (list_eqb_eq _ fac_eqb_eq) in H2. subst; reflexivity. Qed.
Lemma term_ceqb_sound tg r0 a b : term_ceqb a b = true ->
  eval_term S T tg r0 a = eval_term S T tg r0 b.
Proof. intros H. apply term_eqb_eq in H.
  rewrite <- (norm_term_eval tg r0 a), <- (norm_term_eval tg r0 b), H. reflexivity. Qed.

Lemma incl_b_In l1 l2 : incl_b l1 l2 = true -> forall x, In x l1 -> In x l2.
Proof. unfold incl_b. rewrite forallb_forall. intros H x Hx. apply imem_In. apply H; exact Hx. Qed.
Lemma set_eqb_In l1 l2 : set_eqb l1 l2 = true -> forall x, In x l1 <-> In x l2.
Proof. unfold set_eqb. rewrite andb_true_iff. intros [H1 H2] x.
  split; [apply (incl_b_In _ _ H1)|apply (incl_b_In _ _ H2)]. Qed.
(* the value depends on the target list only as a set *)
Lemma eval_term_tg_set tg1 tg2 r0 t : (forall x, In x tg1 <-> In x tg2) ->
  eval_term S T tg1 r0 t = eval_term S T tg2 r0 t.
Proof. intros H. unfold eval_term, contracted, contracted_of.
  rewrite (filter_ext_in (fun x => negb (imem x tg1)) (fun x => negb (imem x tg2))); [reflexivity|].
  intros x _. f_equal. destruct (imem x tg1) eqn:E1, (imem x tg2) eqn:E2; try reflexivity.
  - apply imem_In in E1. apply H in E1. apply imem_In in E1. congruence.
  - apply imem_In in E2. apply H in E2. apply imem_In in E2. congruence. Qed.

Lemma sort_is_irange sp sn x : sort_is sp sn x = true -> irange S T x = rng T sp sn.
Proof. unfold sort_is, irange. rewrite andb_true_iff, space_eqb_eq, spin_eqb_eq. intros [-> ->]. reflexivity. Qed.
Lemma sort_is_same sp sn x y : sort_is sp sn x = true -> sort_is sp sn y = true -> same_sort x y = true.
Proof. unfold sort_is, same_sort. rewrite !andb_true_iff, !space_eqb_eq, !spin_eqb_eq.
  intros [-> ->] [-> ->]. auto. Qed.

(* ---------- every chain of safe steps preserves the value ---------- *)
Theorem reachable_sound name sp sn prov fuel t goal r0 :
  reachable true name sp sn prov fuel t goal = true ->
  orthogonal name (rng T sp sn) ->
  (forall x, In x (targets_of prov t) -> In (r0 x) (irange S T x)) ->
  eval_term S T (targets_of prov t) r0 t = eval_term S T (targets_of prov goal) r0 goal.
Proof. intros H Horth. revert t H. induction fuel as [|f IH]; intros t H Hrng; simpl in H.
  - rewrite orb_false_r, andb_true_iff in H. destruct H as [H1 H2].
    rewrite (eval_term_tg_set _ _ r0 goal (fun x => iff_sym (set_eqb_In _ _ H2 x))).
    apply term_ceqb_sound. exact H1.
  - apply orb_true_iff in H. destruct H as [H|H].
    + apply andb_true_iff in H. destruct H as [H1 H2].
      rewrite (eval_term_tg_set _ _ r0 goal (fun x => iff_sym (set_eqb_In _ _ H2 x))).
      apply term_ceqb_sound. exact H1.
    + apply existsb_exists in H. destruct H as [[[[[pos p] q] r] t'] [Hin H]].
      cbn [negb orb fst snd] in H.
      apply andb_true_iff in H. destruct H as [H Hrec].
      apply andb_true_iff in H. destruct H as [Hsafe Hset].
      pose proof (succs_sound _ _ _ _ _ _ _ _ Hin) as Hstep.
      unfold safe_step in Hsafe. rewrite !andb_true_iff in Hsafe.
      destruct Hsafe as [[[Sp Sq] Sr] Hside].
      pose proof (set_eqb_In _ _ Hset) as Hs.
      rewrite (unitary_step_sound name _ t p q r t' r0 Hstep).
      * rewrite (eval_term_tg_set _ (targets_of prov t') r0 t' (fun x => iff_sym (Hs x))).
        apply IH; [exact Hrec|]. intros x Hx. apply Hrng. apply Hs. exact Hx.
      * apply (sort_is_same sp sn); assumption.
      * apply (sort_is_same sp sn); assumption.
      * rewrite (sort_is_irange sp sn p Sp). exact Horth.
      * exact Hrng.
      * rewrite !orb_true_iff, negb_true_iff in Hside. destruct Hside as [[Hd|Hd]|Hd].
        -- left. apply index_eqb_neq. exact Hd.
        -- right; left. apply imem_In. exact Hd.
        -- right; right. apply imem_In. exact Hd.
Qed.
(* ---------- what exactly goes wrong when the remaining indices coincide ----------
   U_pq U_pq -> 1: if q is neither a target nor present in the rest of the
   term, the value of the input is the value of the output times the number of
   orbitals in the range of q. *)
Definition kcount {A} (l : list A) : K S := ksum l (fun _ => 1).
Lemma ksum_const {A} (l : list A) c : ksum l (fun _ => c) = kcount l * c.
Proof. unfold kcount. induction l; simpl; [ring|rewrite IHl; ring]. Qed.

Theorem unitary_step_square_value name tg t p q t' r0 :
  unitary_step name tg t p q q t' ->
  same_sort q p = true ->
  orthogonal name (irange S T p) ->
  (forall x, In x tg -> In (r0 x) (irange S T x)) ->
  ~ In q tg -> ~ In q (term_idx t') ->
  eval_term S T tg r0 t = kcount (irange S T q) * eval_term S T tg r0 t'.
Proof. intros Hstep Sq Horth Hrng Hqtg Hqt'.
  remember q as r eqn:Er in Hstep at 2.
  destruct Hstep as [c fs u1 u2 rest pos p q r HP N1 N2 Hidx Hptg Hcnt]. subst r.
  assert (Eb : build c q q rest = Term c rest) by (unfold build, mk_delta; rewrite index_eqb_refl; reflexivity).
  rewrite Eb in *. unfold term_idx in Hqt'; cbn [tfacs] in Hqt'.
  set (fs0 := (ATens u1, false) :: (ATens u2, false) :: rest) in *.
  assert (Hc0 : icount p (mono_idx fs0) = 2%nat)
    by (rewrite <- (icount_perm p _ _ (mono_idx_perm _ _ HP)); exact Hcnt).
  assert (Hfacts : p <> q /\ ~ In p (mono_idx rest)).
  { unfold fs0 in Hc0. rewrite !mono_idx_cons, !fac_idx_tens, !icount_app in Hc0.
    destruct pos; destruct Hidx as [I1 I2]; rewrite I1, I2 in Hc0; simpl in Hc0;
      rewrite index_eqb_refl in Hc0;
      destruct (index_eqb p q) eqn:E1; simpl in Hc0; try lia;
      apply index_eqb_neq in E1; split; auto; apply icount_zero; lia. }
  destruct Hfacts as [Hpq Hprest].
  assert (Hidx0 : forall x, In x (mono_idx fs0) <-> x = p \/ x = q \/ In x (mono_idx rest)).
  { intros x. unfold fs0. rewrite !mono_idx_cons, !fac_idx_tens, !in_app_iff.
    destruct pos; destruct Hidx as [I1 I2]; rewrite I1, I2; simpl; intuition. }
  set (xs := contracted tg (Term c rest)).
  assert (HPc : Permutation (contracted tg (Term c fs)) (q :: xs ++ [p])).
  { apply NoDup_Permutation.
    - apply contracted_NoDup.
    - constructor.
      + rewrite in_app_iff. unfold xs. rewrite contracted_In. unfold term_idx; cbn [tfacs].
        simpl. intros [[H _]|[H|[]]]; [tauto|congruence].
      + apply (Permutation_NoDup (Permutation_cons_append xs p)).
        constructor; [|apply contracted_NoDup]. unfold xs. rewrite contracted_In.
        unfold term_idx; cbn [tfacs]. tauto.
    - intros x. simpl. rewrite in_app_iff. unfold xs. rewrite !contracted_In.
      unfold term_idx; cbn [tfacs].
      assert (Hx : In x (mono_idx fs) <-> In x (mono_idx fs0)).
      { split; apply Permutation_in; [|apply Permutation_sym]; apply mono_idx_perm; exact HP. }
      rewrite Hx, Hidx0. simpl. split.
      + intros [[->|[->|H]] Hn]; auto.
      + intros [<-|[[H Hn]|[<-|[]]]]; auto. }
  unfold eval_term at 1.
  rewrite (sum_over_perm S T (term_idx (Term c fs)) _ _ _ r0
             (fun e1 e2 He => term_val_agree S T (Term c fs) e1 e2 He)
             (contracted_NoDup tg (Term c fs)) HPc).
  cbn [sum_over].
  set (c1 := carrier_of u1). set (c2 := carrier_of u2).
  set (A := fun o x : nat => if pos then mat name c1 x o else mat name c1 o x).
  set (B := fun o y : nat => if pos then mat name c2 y o else mat name c2 o y).
  set (F := fun e : env => ofQ S c * mono_val S T e rest).
  assert (HF : depends_on S (mono_idx rest) F).
  { intros e1 e2 He. unfold F. rewrite (mono_val_agree S T rest e1 e2 He). reflexivity. }
  rewrite (ksum_ext S _ _ (fun _ => eval_term S T tg r0 (Term c rest))); [apply ksum_const|].
  intros o Ho.
  rewrite (sum_over_ext S T _ _ (fun e => A (e p) (e q) * B (e p) (e q) * F e)).
  2:{ intros e. unfold term_val; simpl. rewrite (mono_val_perm e _ _ HP).
      unfold fs0, mono_val; simpl. fold (mono_val S T e rest). unfold fac_val; simpl.
      unfold A, B, F, c1, c2.
      destruct pos; destruct Hidx as [I1 I2];
        rewrite (tens_val_mat u1 _ _ e I1), (tens_val_mat u2 _ _ e I2), N1, N2; ring. }
  assert (Rq : irange S T q = irange S T p) by (apply irange_same_sort; exact Sq).
  rewrite (orth_sum_rewrite A B (mono_idx rest) xs p q q F (upd r0 q o)); auto.
  - unfold eval_term. fold xs.
    rewrite (sum_over_ext S T xs _ F) by (intros e; rewrite dval_refl; ring).
    change (fun r' : env => term_val S T r' (Term c rest)) with F.
    apply (sum_over_agree S T (mono_idx rest)); [exact HF|].
    intros x Hx _. unfold upd. destruct (index_eqb x q) eqn:E; [|reflexivity].
    apply index_eqb_eq in E; subst. tauto.
  - intros x y Hx Hy. unfold A, B. destruct (Horth c1 c2 x y Hx Hy) as [O1 O2].
    destruct pos; assumption.
  - right. unfold upd. rewrite index_eqb_refl. exact Ho.
  - right. unfold upd. rewrite index_eqb_refl. exact Ho.
Qed.
(* ---------- Einstein convention: a regular step keeps the target indices ---------- *)
Lemma einstein_targets_In t x : In x (einstein_targets t) <-> icount x (term_idx t) = 1%nat.
Proof. unfold einstein_targets. rewrite filter_In, inodup_In, Nat.eqb_eq. split; [tauto|].
  intros H. split; [|exact H]. apply icount_pos. lia. Qed.
Lemma existsb_perm {A} (f : A -> bool) l l' : Permutation l l' -> existsb f l = existsb f l'.
Proof. induction 1; simpl; try congruence.
  - destruct (f y), (f x); reflexivity. Qed.

(* if the two remaining indices differ and no equal delta is already present
   (it would be absorbed, d**2 -> d), every index but p keeps its number of
   occurrences, so the Einstein targets of the result are those of the input *)
Theorem einstein_targets_step name tg t p q r t' :
  unitary_step name tg t p q r t' ->
  q <> r -> delta_zero q r = false -> existsb (is_delta_fac q r) (tfacs t) = false ->
  forall x, In x (einstein_targets t') <-> In x (einstein_targets t).
Proof. intros Hstep Hqr Hz Hnd x.
  destruct Hstep as [c fs u1 u2 rest pos p q r HP N1 N2 Hidx Hptg Hcnt].
  cbn [tfacs] in Hnd. rewrite (existsb_perm _ _ _ HP) in Hnd. cbn [existsb is_delta_fac orb] in Hnd.
  rewrite !einstein_targets_In. unfold term_idx at 2; cbn [tfacs].
  rewrite (icount_perm x _ _ (mono_idx_perm _ _ HP)).
  assert (Eb : term_idx (build c q r rest) =
               (if idx_leb q r then [q; r] else [r; q]) ++ mono_idx rest).
  { unfold build, mk_delta. apply index_eqb_neq in Hqr. rewrite Hqr, Hz. cbv iota. unfold factor in *. rewrite Hnd.
    unfold term_idx; cbn [tfacs]. rewrite mono_idx_cons. unfold fac_idx; cbn [fst].
    destruct (idx_leb q r); reflexivity. }
  rewrite Eb. rewrite !mono_idx_cons, !fac_idx_tens, !icount_app.
  assert (Hp2 : icount p (mono_idx ((ATens u1, false) :: (ATens u2, false) :: rest)) = 2%nat)
    by (rewrite <- (icount_perm p _ _ (mono_idx_perm _ _ HP)); exact Hcnt).
  rewrite !mono_idx_cons, !fac_idx_tens, !icount_app in Hp2.
  destruct (index_eq_dec x p) as [->|Hxp].
  - (* p: twice before, gone afterwards *)
    destruct pos; destruct Hidx as [I1 I2]; rewrite I1, I2 in *; simpl in *;
      rewrite index_eqb_refl in *;
      destruct (index_eqb p q) eqn:E1; destruct (index_eqb p r) eqn:E2; simpl in *; try lia;
      destruct (idx_leb q r); simpl; rewrite ?E1, ?E2; simpl; lia.
  - apply index_eqb_neq in Hxp.
    destruct pos; destruct Hidx as [I1 I2]; rewrite I1, I2; simpl; rewrite Hxp;
      destruct (idx_leb q r); simpl; lia. Qed.

(* value preservation of a regular step under the Einstein convention, each
   side read with its own Einstein targets *)
Corollary unitary_step_sound_einstein name t p q r t' r0 :
  unitary_step name (einstein_targets t) t p q r t' ->
  same_sort q p = true -> same_sort r p = true ->
  orthogonal name (irange S T p) ->
  (forall x, In x (einstein_targets t) -> In (r0 x) (irange S T x)) ->
  q <> r -> existsb (is_delta_fac q r) (tfacs t) = false ->
  eval_term S T (einstein_targets t) r0 t = eval_term S T (einstein_targets t') r0 t'.
Proof. intros Hstep Sq Sr Horth Hrng Hqr Hnd.
  assert (Hz : delta_zero q r = false).
  { apply delta_zero_same_sort. apply same_sort_eq in Sq, Sr. destruct Sq as [A1 A2], Sr as [B1 B2].
    unfold same_sort. rewrite A1, A2, B1, B2.
    apply andb_true_iff; split; [apply space_eqb_eq|apply spin_eqb_eq]; reflexivity. }
  rewrite (unitary_step_sound name _ t p q r t' r0 Hstep Sq Sr Horth Hrng (or_introl Hqr)).
  apply eval_term_tg_set. intros x. symmetry.
  apply (einstein_targets_step name _ t p q r t' Hstep Hqr Hz Hnd). Qed.
(* ================= the repaired code: whole-recursion theorems ================= *)
Lemma sum_over_ksum {A} (l : list A) xs r0 (f : A -> env -> K S) :
  sum_over S T xs r0 (fun e => ksum l (fun k => f k e)) = ksum l (fun k => sum_over S T xs r0 (f k)).
Proof. induction l as [|a l IH]; simpl; [apply sum_over_zero|].
  rewrite sum_over_add, IH. reflexivity. Qed.
Lemma ksum_flat_map {A B} (g : A -> list B) l (f : B -> K S) :
  ksum (flat_map g l) f = ksum l (fun x => ksum (g x) f).
Proof. induction l as [|a l IH]; simpl; [reflexivity|]. rewrite ksum_app, IH. reflexivity. Qed.
Lemma flat_map_perm {A B} (g : A -> list B) l l' : Permutation l l' -> Permutation (flat_map g l) (flat_map g l').
Proof. induction 1; simpl.
  - constructor.
  - apply Permutation_app_head; assumption.
  - rewrite !app_assoc. apply Permutation_app_tail. apply Permutation_app_comm.
  - etransitivity; eauto. Qed.

Lemma mono_idx_tens ts : mono_idx (map (fun u : tens => (ATens u, false)) ts) = flat_map tens_idx ts.
Proof. induction ts as [|u ts IH]; [reflexivity|]. cbn [map flat_map].
  rewrite mono_idx_cons, IH. reflexivity. Qed.
Lemma mono_val_tens e ts :
  mono_val S T e (map (fun u : tens => (ATens u, false)) ts) = kprod (map (tens_val S T e) ts).
Proof. unfold mono_val. rewrite map_map. reflexivity. Qed.

Lemma summand_val e c qt : term_val S T e (summand c qt) = ofQ S c * pterm_val S T e qt.
Proof. unfold term_val, summand; cbn [tcoef tfacs]. rewrite mono_val_tens, ofQ_mul.
  unfold pterm_val. ring. Qed.
Lemma poly_term_val e c p : term_val S T e (Term c [(APoly p, false)]) = ofQ S c * poly_val S T e p.
Proof. unfold term_val, mono_val; cbn [tcoef tfacs map kprod]. unfold fac_val; cbn [fst snd atom_val]. ring. Qed.

(* multiplying out a homogeneous sum: every summand carries all non-target
   indices of the sum *)
Lemma split_sum_sound tg r0 t :
  (forall p, tfacs t = [(APoly p, false)] -> homog tg p = true) ->
  eval_term S T tg r0 t = ksum (split_sum t) (eval_term S T tg r0).
Proof. intros Hh. unfold split_sum.
  assert (Triv : eval_term S T tg r0 t = ksum [t] (eval_term S T tg r0)) by (simpl; ring).
  destruct t as [c fs]. cbn [tfacs tcoef] in *.
  destruct fs as [|[[u|a b|n|s|p] [|]] [|f2 l]]; try exact Triv.
  destruct (Nat.leb 2 (List.length p)); [|exact Triv]. clear Triv.
  specialize (Hh p eq_refl). unfold homog in Hh. rewrite forallb_forall in Hh.
  set (t := Term c [(APoly p, false)]). set (xs := contracted tg t).
  rewrite ksum_map.
  rewrite (ksum_ext S p _ (fun qt => sum_over S T xs r0 (fun e => term_val S T e (summand c qt)))).
  - rewrite <- (sum_over_ksum p xs r0 (fun qt e => term_val S T e (summand c qt))).
    unfold eval_term. fold xs. apply sum_over_ext. intros e.
    unfold t. rewrite poly_term_val. unfold poly_val. rewrite <- ksum_scal.
    apply ksum_ext. intros qt _. rewrite summand_val. reflexivity.
  - intros qt Hqt. unfold eval_term.
    apply (sum_over_perm S T (term_idx (summand c qt)) _ _ _ r0
             (fun e1 e2 He => term_val_agree S T (summand c qt) e1 e2 He) (contracted_NoDup tg _)).
    apply NoDup_Permutation; [apply contracted_NoDup|apply contracted_NoDup|].
    intros x. unfold xs. rewrite !contracted_In.
    assert (Et : term_idx t = poly_idx p ++ []) by reflexivity.
    assert (Es : term_idx (summand c qt) = flat_map tens_idx (snd qt))
      by (unfold term_idx, summand; cbn [tfacs]; apply mono_idx_tens).
    rewrite Et, Es, app_nil_r.
    split; intros [H1 H2]; split; auto.
    + unfold poly_idx. apply in_flat_map. exists qt. auto.
    + specialize (Hh qt Hqt). rewrite forallb_forall in Hh. specialize (Hh x H1).
      apply orb_true_iff in Hh. destruct Hh as [Hh|Hh]; apply imem_In in Hh; tauto. Qed.

(* ---------- the premise [wfb] is kept by steps and by multiplying out ---------- *)
Lemma fac_ok_delta name sp sn tg a b inv : fac_ok name sp sn tg (ADelta a b, inv) = true.
Proof. unfold fac_ok; simpl. destruct inv; reflexivity. Qed.
Lemma wfb_perm name sp sn tg c fs c' fs' :
  (forall f, In f fs' -> In f fs \/ exists a b inv, f = (ADelta a b, inv)) ->
  wfb name sp sn tg (Term c fs) = true -> wfb name sp sn tg (Term c' fs') = true.
Proof. unfold wfb; cbn [tfacs]. rewrite !forallb_forall. intros Hin H f Hf.
  destruct (Hin f Hf) as [H1|[a [b [inv ->]]]]; [apply H; exact H1|apply fac_ok_delta]. Qed.
Lemma wfb_step name sp sn tg0 name' tg t p q r t' :
  unitary_step name' tg t p q r t' -> wfb name sp sn tg0 t = true -> wfb name sp sn tg0 t' = true.
Proof. intros Hstep. destruct Hstep as [c fs u1 u2 rest pos p q r HP N1 N2 Hidx Hptg Hcnt].
  assert (Hrest : forall f, In f rest -> In f fs).
  { intros f Hf. apply (Permutation_in _ (Permutation_sym HP)). right; right; exact Hf. }
  unfold build. destruct (mk_delta q r) as [| |d] eqn:E.
  - apply wfb_perm. intros f Hf; left; auto.
  - intros _. reflexivity.
  - assert (Hd : exists a b inv, d = (ADelta a b, inv)).
    { unfold mk_delta in E. destruct (index_eqb q r); [discriminate|].
      destruct (delta_zero q r); [discriminate|]. inversion E.
      destruct (idx_leb q r); eauto. }
    destruct (existsb (is_delta_fac q r) rest); apply wfb_perm; intros f Hf.
    + left; auto.
    + destruct Hf as [<-|Hf]; [right; exact Hd|left; auto]. Qed.
Lemma wfb_split name sp sn tg t s : wfb name sp sn tg t = true -> In s (split_sum t) ->
  wfb name sp sn tg s = true.
Proof. unfold split_sum. intros Hw.
  assert (Triv : In s [t] -> wfb name sp sn tg s = true) by (intros [<-|[]]; exact Hw).
  destruct t as [c fs]. cbn [tfacs tcoef] in *.
  destruct fs as [|[[u|a b|n|s0|p] [|]] [|f2 l]]; try exact Triv.
  destruct (Nat.leb 2 (List.length p)); [|exact Triv]. clear Triv.
  intros Hs. apply in_map_iff in Hs. destruct Hs as [qt [<- Hqt]].
  unfold wfb in *; cbn [tfacs forallb] in *. rewrite andb_true_r in Hw.
  unfold fac_ok in Hw. apply andb_true_iff in Hw. destruct Hw as [Hw _].
  cbn [fac_tens fst] in Hw. rewrite forallb_forall in Hw.
  unfold summand; cbn [tfacs]. apply forallb_forall. intros f Hf.
  apply in_map_iff in Hf. destruct Hf as [u [<- Hu]]. unfold fac_ok; cbn [fac_tens fst forallb].
  rewrite !andb_true_r. apply Hw. apply in_flat_map. exists qt. auto. Qed.
Lemma wfb_homog name sp sn tg t p : wfb name sp sn tg t = true -> tfacs t = [(APoly p, false)] ->
  homog tg p = true.
Proof. unfold wfb. intros H E. rewrite E in H. cbn [forallb] in H. rewrite andb_true_r in H.
  unfold fac_ok in H. apply andb_true_iff in H. tauto. Qed.
Lemma wfb_sorts name sp sn tg0 tg t p q r t' :
  unitary_step name tg t p q r t' -> wfb name sp sn tg0 t = true ->
  sort_is sp sn p = true /\ sort_is sp sn q = true /\ sort_is sp sn r = true.
Proof. intros Hstep Hw. destruct Hstep as [c fs u1 u2 rest pos p q r HP N1 N2 Hidx Hptg Hcnt].
  unfold wfb in Hw; cbn [tfacs] in Hw. rewrite forallb_forall in Hw.
  assert (H1 : In (ATens u1, false) fs) by (apply (Permutation_in _ (Permutation_sym HP)); left; reflexivity).
  assert (H2 : In (ATens u2, false) fs) by (apply (Permutation_in _ (Permutation_sym HP)); right; left; reflexivity).
  apply Hw in H1, H2. unfold fac_ok in H1, H2; cbn [fac_tens fst forallb] in H1, H2.
  rewrite !andb_true_r in H1, H2. unfold tens_ok in H1, H2. rewrite N1 in H1. rewrite N2 in H2.
  rewrite String.eqb_refl in H1, H2. cbn [negb orb] in H1, H2.
  destruct pos; destruct Hidx as [I1 I2]; rewrite I1 in H1; rewrite I2 in H2;
    cbn [forallb] in H1, H2; rewrite !andb_true_iff in H1, H2; tauto. Qed.

(* one successful executable pass on a well-formed term preserves the value -
   no side condition about the pair is needed any more *)
Lemma unitary_pass_value name sp sn tg t w t' r0 :
  unitary_pass_tg name tg t = RStep w t' ->
  wfb name sp sn tg t = true ->
  orthogonal name (rng T sp sn) ->
  (forall x, In x tg -> In (r0 x) (irange S T x)) ->
  eval_term S T tg r0 t = eval_term S T tg r0 t' /\ wfb name sp sn tg t' = true.
Proof. destruct w as [[[pos p] q] r]. intros Hp Hw Horth Hrng.
  pose proof (unitary_pass_safe _ _ _ _ _ _ _ _ Hp) as Hside.
  apply unitary_pass_sound in Hp.
  destruct (wfb_sorts _ _ _ _ _ _ _ _ _ _ Hp Hw) as [Sp [Sq Sr]].
  split; [|eapply wfb_step; eauto].
  apply (unitary_step_sound name tg t p q r t' r0 Hp); auto.
  - apply (sort_is_same sp sn); assumption.
  - apply (sort_is_same sp sn); assumption.
  - rewrite (sort_is_irange sp sn p Sp). exact Horth. Qed.

Lemma iter_all_sum (g : term -> option (list term)) (f : term -> K S) ts out :
  (forall t o, In t ts -> g t = Some o -> f t = ksum o f) ->
  iter_all g ts = Some out -> ksum ts f = ksum out f.
Proof. revert out. induction ts as [|t r IH]; simpl; intros out H E.
  - inversion E; reflexivity.
  - destruct (g t) as [a|] eqn:E1; [|discriminate]. destruct (iter_all g r) as [b|] eqn:E2; [|discriminate].
    inversion E; subst. rewrite ksum_app, (H t a), (IH b); auto. Qed.

(* ---------- the whole executable recursion preserves the value ----------
   for provided targets tg: the value of the input term is the sum of the
   values of the returned terms, for every orthogonal model and every target
   assignment within ranges; the only premise is the well-formedness of the input *)
Theorem unitary_iter_sound name sp sn tg fuel t out r0 :
  unitary_iter fuel name (Some tg) t = Some out ->
  wfb name sp sn tg t = true ->
  orthogonal name (rng T sp sn) ->
  (forall x, In x tg -> In (r0 x) (irange S T x)) ->
  eval_term S T tg r0 t = ksum out (eval_term S T tg r0).
Proof. intros H Hw Horth Hrng. revert t out H Hw.
  induction fuel as [|f IH]; intros t out H Hw; simpl in H; [discriminate|].
  unfold unitary_pass in H; cbn [targets_of] in H.
  destruct (unitary_pass_tg name tg t) as [| |w t'] eqn:E; [discriminate| |].
  - inversion H; subst. simpl. ring.
  - destruct (unitary_pass_value name sp sn tg t w t' r0 E Hw Horth Hrng) as [Hv Hw'].
    rewrite Hv. rewrite (split_sum_sound tg r0 t' (fun p0 => wfb_homog name sp sn tg t' p0 Hw')).
    apply (iter_all_sum (unitary_iter f name (Some tg))); [|exact H].
    intros s o Hs Ho. apply IH; [exact Ho|]. eapply wfb_split; eauto. Qed.

(* ---------- the observed call tree ---------- *)
Lemma pick_spec t ks k r : pick t ks = Some (k, r) ->
  Permutation ks (k :: r) /\ term_ceqb t (oroot k) = true.
Proof. revert k r. induction ks as [|k0 ks IH]; simpl; intros k r; [discriminate|].
  destruct (term_ceqb t (oroot k0)) eqn:E.
  - intros H; inversion H; subst. auto.
  - destruct (pick t ks) as [[k' r']|]; [|discriminate]. intros H; inversion H; subst.
    destruct (IH _ _ eq_refl) as [H1 H2]. split; [|exact H2].
    rewrite perm_swap. constructor. exact H1. Qed.
Lemma align_spec ts ks ks' : align ts ks = Some ks' ->
  Permutation ks ks' /\ Forall2 (fun t k => term_ceqb t (oroot k) = true) ts ks'.
Proof. revert ks ks'. induction ts as [|t ts IH]; simpl; intros ks ks'.
  - destruct ks; [|discriminate]. intros H; inversion H; subst. split; constructor.
  - destruct (pick t ks) as [[k r]|] eqn:E; [|discriminate].
    destruct (align ts r) as [l|] eqn:E2; [|discriminate]. intros H; inversion H; subst.
    destruct (pick_spec _ _ _ _ E) as [P1 C1]. destruct (IH _ _ E2) as [P2 F2].
    split; [rewrite P1; constructor; exact P2|constructor; assumption]. Qed.

(* every call tree accepted by [check_tree] preserves the value: the input
   term's value is the sum of the values of the returned terms *)
Theorem check_tree_sound name sp sn prov fuel n r0 :
  check_tree fuel name sp sn prov n = true ->
  orthogonal name (rng T sp sn) ->
  (forall x, In x (targets_of prov (oroot n)) -> In (r0 x) (irange S T x)) ->
  eval_term S T (targets_of prov (oroot n)) r0 (oroot n)
  = ksum (leaves fuel n) (eval_term S T (targets_of prov (oroot n)) r0).
Proof. intros H Horth. revert n H. induction fuel as [|f IH]; intros n H Hrng; [discriminate|].
  destruct n as [t tgo ks]. cbn [check_tree leaves oroot okids] in *.
  destruct ks as [|k0 ks0]; [simpl; ring|].
  set (ks := k0 :: ks0) in *. set (tg := targets_of prov t) in *.
  apply andb_true_iff in H. destruct H as [Hw H].
  unfold unitary_pass in H. fold tg in H.
  destruct (unitary_pass_tg name tg t) as [| |w t'] eqn:E; try discriminate.
  destruct (align (split_sum t') ks) as [ks'|] eqn:EA; [|discriminate].
  destruct (unitary_pass_value name sp sn tg t w t' r0 E Hw Horth Hrng) as [Hv Hw'].
  destruct (align_spec _ _ _ EA) as [HP HF].
  rewrite Hv, (split_sum_sound tg r0 t' (fun p0 => wfb_homog name sp sn tg t' p0 Hw')).
  rewrite (ksum_perm S _ _ _ (flat_map_perm (leaves f) _ _ HP)), ksum_flat_map.
  rewrite forallb_forall in H. clear EA HP.
  induction HF as [|s k ss kk Hc HF' IHF]; [reflexivity|].
  cbn [ksum]. rewrite IHF by (intros x Hx; apply H; right; exact Hx). f_equal.
  specialize (H k (or_introl eq_refl)). apply andb_true_iff in H. destruct H as [Hset Hck].
  pose proof (set_eqb_In _ _ Hset) as Hs.
  rewrite (term_ceqb_sound tg r0 s (oroot k) Hc).
  rewrite (eval_term_tg_set tg (targets_of prov (oroot k)) r0 (oroot k) (fun x => iff_sym (Hs x))).
  rewrite (IH k Hck) by (intros x Hx; apply Hrng; apply Hs; exact Hx).
  apply ksum_ext. intros x _. apply eval_term_tg_set. exact Hs. Qed.
(* ---------- mixed-position pairs (U_qp U_pr) ----------
   The code only pairs tensors that share their first or their second index;
   the model leaves mixed-position pairs untouched as well.  For a carrier with
   transposition symmetry U_xy = s U_yx the mixed contraction is s delta_qr:
   +delta for a bra-ket symmetric, -delta for a bra-ket antisymmetric
   orthogonal tensor - a rule "U_qp U_pr -> delta_qr" is wrong for the latter. *)
Theorem mixed_position_sum name R c1 c2 (sg : bool) :
  orthogonal name R ->
  (forall x y, mat name c1 x y = ksgn sg * mat name c1 y x) ->
  forall x y, In x R -> In y R ->
    ksum R (fun o => mat name c1 x o * mat name c2 o y) = ksgn sg * (if Nat.eqb x y then 1 else 0).
Proof. intros Horth Hsym x y Hx Hy.
  rewrite (ksum_ext S R _ (fun o => ksgn sg * (mat name c1 o x * mat name c2 o y))).
  - rewrite ksum_scal. destruct (Horth c1 c2 x y Hx Hy) as [O1 _]. rewrite O1. reflexivity.
  - intros o _. rewrite (Hsym x o). ring. Qed.
End Sums.
