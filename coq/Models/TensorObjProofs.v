(* C06 - proofs about the model of tensor-object construction (TensorObj.v). *)
From Coq Require Import ZArith NArith List Bool Lia Ascii String Permutation Sorted Morphisms.
From ADC Require Import Core.Scalar Core.Index Core.Expr Core.Canon Models.TensorObj.
Import ListNotations.
Local Notation length := List.length.

(* ========================================================================= *)
(* 1. the key order is a strict total order                                   *)

Lemma lex_cmp_refl a : lex_cmp a a = Eq.
Proof. apply lex_cmp_eq; reflexivity. Qed.

Lemma lex_cmp_antisym a : forall b, lex_cmp b a = CompOpp (lex_cmp a b).
Proof. induction a as [|x a IH]; intros [|y b]; simpl; try reflexivity.
  rewrite (N.compare_antisym x y). destruct (N.compare x y); simpl; auto. Qed.

Lemma lex_cmp_trans_lt a : forall b c, lex_cmp a b = Lt -> lex_cmp b c = Lt -> lex_cmp a c = Lt.
Proof. induction a as [|x a IH]; intros [|y b] [|z c]; simpl; try congruence.
  destruct (N.compare_spec x y) as [E1|E1|E1]; destruct (N.compare_spec y z) as [E2|E2|E2];
    try congruence; intros H1 H2.
  - subst. rewrite N.compare_refl. eapply IH; eauto.
  - subst. rewrite (proj2 (N.compare_lt_iff _ _) E2). reflexivity.
  - subst. rewrite (proj2 (N.compare_lt_iff _ _) E1). reflexivity.
  - assert (E : (x < z)%N) by lia. rewrite (proj2 (N.compare_lt_iff _ _) E). reflexivity.
Qed.

Definition idx_lt (a b : index) : Prop := idx_cmp a b = Lt.

Lemma idx_cmp_refl a : idx_cmp a a = Eq.
Proof. apply lex_cmp_refl. Qed.
Lemma idx_cmp_antisym a b : idx_cmp b a = CompOpp (idx_cmp a b).
Proof. apply lex_cmp_antisym. Qed.
Lemma idx_lt_trans a b c : idx_lt a b -> idx_lt b c -> idx_lt a c.
Proof. apply lex_cmp_trans_lt. Qed.
Lemma idx_lt_irrefl a : ~ idx_lt a a.
Proof. unfold idx_lt; rewrite idx_cmp_refl; discriminate. Qed.
Lemma idx_lt_asym a b : idx_lt a b -> ~ idx_lt b a.
Proof. unfold idx_lt; intros H; rewrite idx_cmp_antisym, H; discriminate. Qed.
Lemma idx_gt_lt a b : idx_cmp a b = Gt -> idx_lt b a.
Proof. unfold idx_lt; intros H; rewrite idx_cmp_antisym, H; reflexivity. Qed.
Lemma idx_lt_neq a b : idx_lt a b -> a <> b.
Proof. intros H ->. exact (idx_lt_irrefl _ H). Qed.
Lemma idx_total a b : idx_lt a b \/ a = b \/ idx_lt b a.
Proof. destruct (idx_cmp a b) eqn:E; [right; left; apply idx_cmp_eq; exact E|left; exact E|
  right; right; apply idx_gt_lt; exact E]. Qed.

Lemma idx_ltb_lt a b : idx_ltb a b = true <-> idx_lt a b.
Proof. unfold idx_ltb, lex_ltb, idx_lt, idx_cmp. destruct (lex_cmp (idx_key a) (idx_key b));
  split; congruence. Qed.
Lemma idx_leb_nlt a b : idx_leb a b = true <-> ~ idx_lt b a.
Proof. unfold idx_leb, lex_leb. fold (idx_cmp a b). unfold idx_lt. rewrite (idx_cmp_antisym a b).
  destruct (idx_cmp a b); simpl; split; congruence. Qed.

#[global] Instance idx_lt_Transitive : Transitive idx_lt.
Proof. intros a b c; apply idx_lt_trans. Qed.

(* strictly sorted lists *)
Definition ssorted (l : list index) : Prop := StronglySorted idx_lt l.

Lemma ssorted_NoDup l : ssorted l -> NoDup l.
Proof. induction 1 as [|x l Hs IH Hall]; constructor; auto.
  intros Hin. rewrite Forall_forall in Hall. exact (idx_lt_irrefl _ (Hall _ Hin)). Qed.

(* a permutation of a strictly sorted list that is strictly sorted is the same list *)
Lemma ssorted_unique l1 : forall l2, ssorted l1 -> ssorted l2 -> Permutation l1 l2 -> l1 = l2.
Proof. induction l1 as [|x l1 IH]; intros l2 H1 H2 HP.
  - apply Permutation_nil in HP; auto.
  - destruct l2 as [|y l2]; [symmetry in HP; apply Permutation_nil in HP; discriminate|].
    inversion H1 as [|? ? S1 F1]; inversion H2 as [|? ? S2 F2]; subst.
    rewrite Forall_forall in F1, F2.
    assert (x = y).
    { assert (Hx : In x (y :: l2)) by (eapply Permutation_in; [exact HP|left; reflexivity]).
      assert (Hy : In y (x :: l1)) by (eapply Permutation_in; [symmetry; exact HP|left; reflexivity]).
      destruct Hx as [Hx|Hx]; [auto|]. destruct Hy as [Hy|Hy]; [auto|].
      exfalso. exact (idx_lt_asym _ _ (F1 _ Hy) (F2 _ Hx)). }
    subst y. f_equal. apply IH; auto. eapply Permutation_cons_inv; eauto. Qed.

(* ========================================================================= *)
(* 2. counting inversions                                                     *)

Definition cnt (f : index -> bool) (l : list index) : nat := length (filter f l).
Lemma cnt_cons f x l : cnt f (x :: l) = (if f x then 1 else 0) + cnt f l.
Proof. unfold cnt; simpl. destruct (f x); reflexivity. Qed.
Lemma cnt_perm f l l' : Permutation l l' -> cnt f l = cnt f l'.
Proof. induction 1; rewrite ?cnt_cons; try lia. Qed.
Lemma cnt_app f l m : cnt f (l ++ m) = cnt f l + cnt f m.
Proof. unfold cnt. rewrite filter_app, app_length. reflexivity. Qed.
Lemma cnt_lt_cnt x l : cnt_lt x l = cnt (fun y => idx_ltb y x) l.
Proof. reflexivity. Qed.
Lemma cnt_zero f l : (forall y, In y l -> f y = false) -> cnt f l = 0.
Proof. induction l as [|y l IH]; intros H; [reflexivity|]. rewrite cnt_cons, (H y), IH; simpl; auto.
  intros; apply H; right; auto. Qed.

Lemma inversions_cons x l : inversions (x :: l) = cnt_lt x l + inversions l.
Proof. reflexivity. Qed.

Lemma ssorted_inversions l : ssorted l -> inversions l = 0.
Proof. induction 1 as [|x l Hs IH Hall]; [reflexivity|]. rewrite inversions_cons, IH, cnt_lt_cnt.
  rewrite cnt_zero; [reflexivity|]. rewrite Forall_forall in Hall. intros y Hy.
  destruct (idx_ltb y x) eqn:E; [|reflexivity]. apply idx_ltb_lt in E.
  exfalso. exact (idx_lt_asym _ _ E (Hall _ Hy)). Qed.

(* appending one element *)
Lemma inversions_snoc l z : inversions (l ++ [z]) = inversions l + cnt (fun y => idx_ltb z y) l.
Proof. induction l as [|x l IH]; simpl; [reflexivity|].
  rewrite IH, !cnt_lt_cnt, cnt_app, !cnt_cons. unfold cnt at 2; simpl. lia. Qed.

(* ========================================================================= *)
(* 3. permutations with parity                                                *)

Inductive PermPar : bool -> list index -> list index -> Prop :=
| pp_nil : PermPar false [] []
| pp_skip x l l' p : PermPar p l l' -> PermPar p (x :: l) (x :: l')
| pp_swap x y l : PermPar true (y :: x :: l) (x :: y :: l)
| pp_trans p q l l' l'' : PermPar p l l' -> PermPar q l' l'' -> PermPar (xorb p q) l l''.

Lemma PermPar_refl l : PermPar false l l.
Proof. induction l; constructor; auto. Qed.
Lemma PermPar_Permutation p l l' : PermPar p l l' -> Permutation l l'.
Proof. induction 1; [constructor|constructor; auto|apply perm_swap|eapply perm_trans; eauto]. Qed.
Lemma Permutation_PermPar l l' : Permutation l l' -> exists p, PermPar p l l'.
Proof. induction 1 as [|x l l' _ [p IH]|x y l|l l' l'' _ [p IH1] _ [q IH2]].
  - exists false; constructor.
  - exists p; constructor; auto.
  - exists true; constructor.
  - exists (xorb p q); econstructor; eauto. Qed.
Lemma PermPar_sym p l l' : PermPar p l l' -> PermPar p l' l.
Proof. induction 1; [constructor|constructor; auto|constructor|].
  rewrite xorb_comm. econstructor; eauto. Qed.

(* the parity of a permutation of a duplicate-free list is determined by the
   two lists: it is the difference of their inversion parities *)
Lemma PermPar_inversions p l l' : PermPar p l l' -> NoDup l ->
  Nat.odd (inversions l') = xorb p (Nat.odd (inversions l)).
Proof. induction 1 as [|x l l' p H IH|x y l|p q l l' l'' H1 IH1 H2 IH2]; intros Hnd.
  - reflexivity.
  - inversion Hnd; subst. rewrite !inversions_cons, !cnt_lt_cnt.
    rewrite (cnt_perm _ _ _ (PermPar_Permutation _ _ _ H)).
    rewrite !Nat.odd_add, IH by assumption. destruct p, (Nat.odd (cnt _ l')), (Nat.odd (inversions l)); reflexivity.
  - rewrite !inversions_cons, !cnt_lt_cnt, !cnt_cons.
    assert (Hxy : x <> y).
    { inversion Hnd as [|? ? Hn _]; subst. intros ->. apply Hn; left; reflexivity. }
    destruct (idx_total x y) as [Hlt|[->|Hlt]]; [|congruence|].
    + assert (E1 : idx_ltb x y = true) by (apply idx_ltb_lt; exact Hlt).
      assert (E2 : idx_ltb y x = false).
      { destruct (idx_ltb y x) eqn:E; [|reflexivity]. apply idx_ltb_lt in E.
        exfalso; exact (idx_lt_asym _ _ Hlt E). }
      rewrite E1, E2. rewrite !Nat.odd_add. simpl.
      destruct (Nat.odd (cnt _ l)), (Nat.odd (cnt _ l)), (Nat.odd (inversions l)); reflexivity.
    + assert (E1 : idx_ltb y x = true) by (apply idx_ltb_lt; exact Hlt).
      assert (E2 : idx_ltb x y = false).
      { destruct (idx_ltb x y) eqn:E; [|reflexivity]. apply idx_ltb_lt in E.
        exfalso; exact (idx_lt_asym _ _ Hlt E). }
      rewrite E1, E2. rewrite !Nat.odd_add. simpl.
      destruct (Nat.odd (cnt _ l)), (Nat.odd (cnt _ l)), (Nat.odd (inversions l)); reflexivity.
  - assert (Hnd' : NoDup l') by (eapply Permutation_NoDup; [eapply PermPar_Permutation; eauto|auto]).
    rewrite (IH2 Hnd'), (IH1 Hnd).
    destruct p, q, (Nat.odd (inversions l)); reflexivity. Qed.

(* ========================================================================= *)
(* 4. the passes of the bubble sort                                           *)

Definition lsorted (l : list index) : Prop := Sorted idx_lt l.

Lemma fwd_pass_spec r : forall x l n, fwd_pass x r = Some (l, n) ->
  Permutation (x :: r) l /\ inversions l + n = inversions (x :: r) /\
  (n = 0 -> l = x :: r /\ lsorted (x :: r)).
Proof. induction r as [|y r IH]; intros x l n; simpl.
  - intros H; inversion H; subst. repeat split; auto. repeat constructor.
  - destruct (idx_cmp x y) eqn:Ec; [discriminate| |].
    + destruct (fwd_pass y r) as [[l' n']|] eqn:E; [|discriminate].
      intros H; inversion H; subst. destruct (IH _ _ _ E) as (HP & Hi & Hz).
      split; [constructor; exact HP|]. split.
      * rewrite !inversions_cons in *. rewrite !cnt_lt_cnt in *.
        rewrite (cnt_perm _ _ _ (Permutation_sym HP)). rewrite cnt_cons in *. lia.
      * intros ->. destruct (Hz eq_refl) as [-> Hs]. split; [reflexivity|].
        constructor; [exact Hs|constructor; exact Ec].
    + destruct (fwd_pass x r) as [[l' n']|] eqn:E; [|discriminate].
      intros H; inversion H; subst. destruct (IH _ _ _ E) as (HP & Hi & Hz).
      split; [rewrite perm_swap; constructor; exact HP|]. split; [|discriminate].
      assert (E1 : idx_ltb y x = true) by (apply idx_ltb_lt, idx_gt_lt; exact Ec).
      assert (E2 : idx_ltb x y = false).
      { destruct (idx_ltb x y) eqn:E'; [|reflexivity]. apply idx_ltb_lt in E'.
        unfold idx_lt in E'; congruence. }
      rewrite !inversions_cons in *. rewrite !cnt_lt_cnt in *.
      rewrite (cnt_perm _ _ _ (Permutation_sym HP)). rewrite !cnt_cons in *.
      rewrite E1, E2. lia. Qed.

Lemma fwd_pass_none r : forall x, fwd_pass x r = None -> ~ NoDup (x :: r).
Proof. induction r as [|y r IH]; intros x; simpl; [discriminate|].
  destruct (idx_cmp x y) eqn:Ec.
  - intros _ Hnd. apply idx_cmp_eq in Ec; subst. inversion Hnd as [|? ? Hn _]; apply Hn; left; reflexivity.
  - destruct (fwd_pass y r) as [[l' n']|] eqn:E; [discriminate|]. intros _ Hnd.
    apply (IH _ E). inversion Hnd; assumption.
  - destruct (fwd_pass x r) as [[l' n']|] eqn:E; [discriminate|]. intros _ Hnd.
    apply (IH _ E). inversion Hnd as [|? ? Hn Hnd']; subst. inversion Hnd'; subst.
    constructor; [intros Hin; apply Hn; right; exact Hin|assumption]. Qed.

Lemma bwd_pass_spec l : forall l' n, bwd_pass l = Some (l', n) ->
  Permutation l l' /\ inversions l' + n = inversions l.
Proof. induction l as [|x r IH]; intros l' n; simpl.
  - intros H; inversion H; subst; split; auto.
  - destruct (bwd_pass r) as [[[|y r'] n']|] eqn:E; [| |discriminate].
    + intros H; inversion H; subst. destruct (IH _ _ eq_refl) as (HP & Hi).
      apply Permutation_sym, Permutation_nil in HP; subst. split; [reflexivity|].
      simpl in *. lia.
    + destruct (IH _ _ eq_refl) as (HP & Hi).
      destruct (idx_cmp x y) eqn:Ec; [discriminate| |]; intros H; inversion H; subst.
      * split; [constructor; exact HP|]. rewrite !inversions_cons in *. rewrite !cnt_lt_cnt in *.
        rewrite (cnt_perm _ _ _ HP). rewrite !cnt_cons in *. lia.
      * split; [rewrite HP; apply perm_swap|].
        assert (E1 : idx_ltb y x = true) by (apply idx_ltb_lt, idx_gt_lt; exact Ec).
        assert (E2 : idx_ltb x y = false).
        { destruct (idx_ltb x y) eqn:E'; [|reflexivity]. apply idx_ltb_lt in E'.
          unfold idx_lt in E'; congruence. }
        rewrite !inversions_cons in *. rewrite !cnt_lt_cnt in *.
        rewrite (cnt_perm _ _ _ HP). rewrite !cnt_cons in *. rewrite E1, E2. lia. Qed.

Lemma bwd_pass_none l : bwd_pass l = None -> ~ NoDup l.
Proof. induction l as [|x r IH]; simpl; [discriminate|].
  destruct (bwd_pass r) as [[[|y r'] n']|] eqn:E.
  - discriminate.
  - destruct (bwd_pass_spec _ _ _ E) as (HP & _).
    destruct (idx_cmp x y) eqn:Ec; try discriminate. intros _ Hnd.
    apply idx_cmp_eq in Ec; subst. inversion Hnd as [|? ? Hn _]; subst. apply Hn.
    eapply Permutation_in; [symmetry; exact HP|left; reflexivity].
  - intros _ Hnd. apply IH; [reflexivity|]. inversion Hnd; assumption. Qed.

(* ========================================================================= *)
(* 5. the whole sort                                                          *)

Lemma lsorted_ssorted l : lsorted l -> ssorted l.
Proof. apply Sorted_StronglySorted. exact idx_lt_Transitive. Qed.

Lemma bubble_loop_spec fuel : forall l sg, inversions l < fuel ->
  match bubble_loop fuel l sg with
  | BOk l' n => Permutation l l' /\ ssorted l' /\ n = sg + inversions l
  | BPauli => ~ NoDup l
  | BFuel => False
  end.
Proof. induction fuel as [|f IH]; intros l sg Hf; [lia|]. simpl.
  destruct l as [|x r]; [repeat split; auto; constructor|].
  destruct (fwd_pass x r) as [[l1 n1]|] eqn:E1; [|apply fwd_pass_none; exact E1].
  destruct (fwd_pass_spec _ _ _ _ E1) as (HP1 & Hi1 & Hz1).
  destruct (Nat.eqb n1 0) eqn:En.
  - apply Nat.eqb_eq in En. destruct (Hz1 En) as [-> Hs]. apply lsorted_ssorted in Hs.
    repeat split; auto. rewrite (ssorted_inversions _ Hs). lia.
  - apply Nat.eqb_neq in En.
    assert (Hne : l1 <> []).
    { intros ->. apply Permutation_sym, Permutation_nil in HP1. discriminate. }
    pose proof (app_removelast_last x Hne) as Hl1.
    destruct (bwd_pass (removelast l1)) as [[l2 n2]|] eqn:E2.
    + destruct (bwd_pass_spec _ _ _ E2) as (HP2 & Hi2).
      assert (HP : Permutation (x :: r) (l2 ++ [last l1 x])).
      { rewrite HP1. rewrite Hl1 at 1. apply Permutation_app_tail. exact HP2. }
      assert (Hi : inversions (l2 ++ [last l1 x]) + n2 = inversions l1).
      { rewrite Hl1 at 2. rewrite !inversions_snoc. rewrite (cnt_perm _ _ _ HP2). lia. }
      specialize (IH (l2 ++ [last l1 x]) (sg + n1 + n2)).
      destruct (bubble_loop f (l2 ++ [last l1 x]) (sg + n1 + n2)) as [l' n| |].
      * destruct IH as (HP3 & Hs & Hn); [lia|]. repeat split; auto; [rewrite HP; exact HP3|lia].
      * intros Hnd. apply IH; [lia|]. eapply Permutation_NoDup; eauto.
      * apply IH; lia.
    + intros Hnd. apply (bwd_pass_none _ E2).
      assert (Hnd1 : NoDup l1) by (eapply Permutation_NoDup; eauto).
      rewrite Hl1 in Hnd1. apply NoDup_remove_1 in Hnd1. rewrite app_nil_r in Hnd1. exact Hnd1.
Qed.

(* the sort never runs out of fuel, returns the strictly sorted permutation
   together with the exact number of inversions of its input, and raises
   ViolationOfPauliPrinciple exactly for lists with a repeated index *)
Theorem bubble_spec l :
  match bubble l with
  | BOk l' n => Permutation l l' /\ ssorted l' /\ n = inversions l /\ NoDup l
  | BPauli => ~ NoDup l
  | BFuel => False
  end.
Proof. unfold bubble. pose proof (bubble_loop_spec (S (inversions l)) l 0 (Nat.lt_succ_diag_r _)) as H.
  destruct (bubble_loop (S (inversions l)) l 0); auto.
  destruct H as (HP & Hs & Hn). repeat split; auto.
  eapply Permutation_NoDup; [symmetry; exact HP|apply ssorted_NoDup; exact Hs]. Qed.

Corollary bubble_never_out_of_fuel l : bubble l <> BFuel.
Proof. pose proof (bubble_spec l) as H. destruct (bubble l); try discriminate. contradiction. Qed.

Lemma bubble_pauli_iff l : bubble l = BPauli <-> ~ NoDup l.
Proof. pose proof (bubble_spec l) as H. destruct (bubble l) as [l' n| |]; split; try discriminate; auto.
  - intros Hn. destruct H as (_ & _ & _ & Hnd). contradiction.
  - contradiction. Qed.

(* the result depends only on the multiset of the input *)
Lemma bubble_perm l1 l2 l' n : Permutation l1 l2 -> bubble l1 = BOk l' n ->
  bubble l2 = BOk l' (inversions l2).
Proof. intros HP E. pose proof (bubble_spec l1) as H1. pose proof (bubble_spec l2) as H2.
  rewrite E in H1. destruct H1 as (HP1 & Hs1 & _ & Hnd1).
  destruct (bubble l2) as [l2' n2| |].
  - destruct H2 as (HP2 & Hs2 & -> & _). f_equal.
    apply ssorted_unique; auto. rewrite <- HP2, <- HP. exact HP1.
  - exfalso. apply H2. eapply Permutation_NoDup; eauto.
  - contradiction. Qed.

Lemma bubble_sorted_id l : ssorted l -> bubble l = BOk l 0.
Proof. intros Hs. pose proof (bubble_spec l) as H. destruct (bubble l) as [l' n| |].
  - destruct H as (HP & Hs' & -> & _). rewrite (ssorted_inversions _ Hs).
    f_equal. symmetry. apply ssorted_unique; auto.
  - exfalso. apply H, ssorted_NoDup, Hs.
  - contradiction. Qed.

Lemma bubble_PermPar l l' n : bubble l = BOk l' n -> PermPar (Nat.odd n) l l'.
Proof. intros E. pose proof (bubble_spec l) as H. rewrite E in H.
  destruct H as (HP & Hs & -> & Hnd). destruct (Permutation_PermPar _ _ HP) as [p Hp].
  pose proof (PermPar_inversions _ _ _ Hp Hnd) as Hi. rewrite (ssorted_inversions _ Hs) in Hi.
  simpl in Hi. destruct p, (Nat.odd (inversions l)); try discriminate; exact Hp. Qed.

(* ========================================================================= *)
(* 6. sorted(...) of SymmetricTensor                                          *)

Definition idx_le (a b : index) : Prop := idx_leb a b = true.
Lemma idx_lt_le a b : idx_lt a b -> idx_le a b.
Proof. intros H. apply idx_leb_nlt. apply idx_lt_asym; exact H. Qed.
Lemma idx_le_total a b : idx_leb a b = false -> idx_le b a.
Proof. intros H. apply idx_leb_nlt. intros Hlt. apply idx_lt_le in Hlt. unfold idx_le in Hlt. congruence. Qed.
Lemma idx_le_antisym a b : idx_le a b -> idx_le b a -> a = b.
Proof. intros H1 H2. apply idx_leb_nlt in H1, H2. destruct (idx_total a b) as [H|[H|H]]; tauto. Qed.
Lemma idx_le_trans a b c : idx_le a b -> idx_le b c -> idx_le a c.
Proof. intros H1 H2. apply idx_leb_nlt in H1, H2. apply idx_leb_nlt. intros H.
  destruct (idx_total a b) as [Hab|[->|Hab]]; [|tauto|tauto].
  apply H2. eapply idx_lt_trans; eauto. Qed.

Definition wsorted (l : list index) : Prop := StronglySorted idx_le l.

Lemma kinsert_idx_sorted x l : wsorted l -> wsorted (kinsert idx_key x l).
Proof. induction 1 as [|y l Hs IH Hall]; simpl; [repeat constructor|].
  fold (idx_leb x y). destruct (idx_leb x y) eqn:E.
  - constructor; [constructor; auto|]. constructor; [exact E|].
    rewrite Forall_forall in *. intros z Hz. eapply idx_le_trans; eauto.
  - constructor; [exact IH|]. rewrite Forall_forall in *. intros z Hz.
    apply (Permutation_in _ (Permutation_sym (kinsert_perm idx_key x l))) in Hz.
    destruct Hz as [<-|Hz]; [apply idx_le_total; exact E|auto]. Qed.
Lemma ksort_idx_sorted l : wsorted (ksort idx_key l).
Proof. induction l; simpl; [constructor|apply kinsert_idx_sorted; assumption]. Qed.

Lemma wsorted_unique l1 : forall l2, wsorted l1 -> wsorted l2 -> Permutation l1 l2 -> l1 = l2.
Proof. induction l1 as [|x l1 IH]; intros l2 H1 H2 HP.
  - apply Permutation_nil in HP; auto.
  - destruct l2 as [|y l2]; [symmetry in HP; apply Permutation_nil in HP; discriminate|].
    inversion H1 as [|? ? S1 F1]; inversion H2 as [|? ? S2 F2]; subst.
    rewrite Forall_forall in F1, F2.
    assert (x = y).
    { assert (Hx : In x (y :: l2)) by (eapply Permutation_in; [exact HP|left; reflexivity]).
      assert (Hy : In y (x :: l1)) by (eapply Permutation_in; [symmetry; exact HP|left; reflexivity]).
      destruct Hx as [Hx|Hx]; [auto|]. destruct Hy as [Hy|Hy]; [auto|].
      apply idx_le_antisym; auto. }
    subst y. f_equal. apply IH; auto. eapply Permutation_cons_inv; eauto. Qed.

Lemma ksort_idx_perm_eq l1 l2 : Permutation l1 l2 -> ksort idx_key l1 = ksort idx_key l2.
Proof. intros HP. apply wsorted_unique; try apply ksort_idx_sorted.
  rewrite <- (ksort_perm idx_key l1), <- (ksort_perm idx_key l2). exact HP. Qed.
Lemma ksort_idx_id l : wsorted l -> ksort idx_key l = l.
Proof. intros H. apply wsorted_unique; [apply ksort_idx_sorted|exact H|].
  symmetry; apply ksort_perm. Qed.
Lemma ssorted_wsorted l : ssorted l -> wsorted l.
Proof. induction 1 as [|x l Hs IH Hall]; constructor; auto.
  rewrite Forall_forall in *. intros; apply idx_lt_le; auto. Qed.

(* ========================================================================= *)
(* 7. the bra-ket comparison                                                  *)

Lemma bk_cmp_antisym u l : bk_cmp l u = CompOpp (bk_cmp u l).
Proof. unfold bk_cmp.
  rewrite (lex_cmp_antisym (spaces_of l) (spaces_of u)).
  rewrite (lex_cmp_antisym (spins_of l) (spins_of u)).
  rewrite (lex_cmp_antisym (names_of l) (names_of u)).
  destruct (lex_cmp (spaces_of l) (spaces_of u)); simpl; auto.
  destruct (lex_cmp (spins_of l) (spins_of u)); simpl; auto. Qed.

Definition name_key (i : index) : list N :=
  [space_code (ispace i); spin_code (ispin i); inum i; iletter i].
(* inside the list an index is determined by space, spin and name (no two
   different dummies with the same name) *)
Definition names_inj (L : list index) : Prop :=
  forall a b, In a L -> In b L -> name_key a = name_key b -> a = b.

Lemma names_inj_perm L L' : Permutation L L' -> names_inj L -> names_inj L'.
Proof. intros HP H a b Ha Hb. apply H; eapply Permutation_in; try eassumption; symmetry; exact HP. Qed.
Lemma uid0_names_inj L : (forall a, In a L -> iuid a = 0%N) -> names_inj L.
Proof. intros H a b Ha Hb E. apply idx_key_inj. unfold idx_key. unfold name_key in E.
  rewrite (H a Ha), (H b Hb). inversion E. reflexivity. Qed.

Lemma bk_cmp_eq u : forall l, bk_cmp u l = Eq ->
  (forall a b, In a u -> In b l -> name_key a = name_key b -> a = b) -> u = l.
Proof. unfold bk_cmp. intros l H.
  destruct (lex_cmp (spaces_of l) (spaces_of u)) eqn:E1; try discriminate.
  destruct (lex_cmp (spins_of l) (spins_of u)) eqn:E2; try discriminate.
  apply lex_cmp_eq in E1, E2, H. revert l E1 E2 H.
  induction u as [|a u IH]; intros [|b l]; simpl; try discriminate; auto.
  intros E1 E2 E3 Hinj. inversion E1; inversion E2; inversion E3.
  assert (a = b).
  { apply Hinj; [left; reflexivity|left; reflexivity|]. unfold name_key. congruence. }
  subst b. f_equal. apply IH; auto; try (intros; apply Hinj; auto; right; assumption). Qed.

Lemma lidx_eqb_eq a : forall b, lidx_eqb a b = true <-> a = b.
Proof. induction a as [|x a IH]; intros [|y b]; simpl; try (split; congruence).
  rewrite andb_true_iff, index_eqb_eq, IH. split; [intros [-> ->]; reflexivity|intros H; inversion H; auto]. Qed.
Lemma lidx_eqb_refl a : lidx_eqb a a = true.
Proof. apply lidx_eqb_eq; reflexivity. Qed.
Lemma bk_cmp_refl u : bk_cmp u u = Eq.
Proof. unfold bk_cmp. rewrite !lex_cmp_refl. reflexivity. Qed.
Lemma need_swap_asym u l : need_bra_ket_swap l u = true -> need_bra_ket_swap u l = false.
Proof. unfold need_bra_ket_swap. rewrite (bk_cmp_antisym l u). destruct (bk_cmp l u); simpl; congruence. Qed.
Lemma need_swap_refl u : need_bra_ket_swap u u = false.
Proof. unfold need_bra_ket_swap. rewrite bk_cmp_refl. reflexivity. Qed.
Lemma diag_zero_true bks u l : diag_zero bks u l = true <-> (bks = (-1)%Z /\ u = l).
Proof. unfold diag_zero. rewrite andb_true_iff, Z.eqb_eq, lidx_eqb_eq. tauto. Qed.
(* the zero test cannot fire when a swap would have been needed either way *)
Lemma swap_not_diag bks u l : need_bra_ket_swap u l = true -> diag_zero bks l u = false.
Proof. intros H. destruct (diag_zero bks l u) eqn:E; [|reflexivity].
  apply diag_zero_true in E. destruct E as [_ ->]. rewrite need_swap_refl in H. discriminate. Qed.

(* ========================================================================= *)
(* 8. value soundness of the constructors                                     *)

(* the symmetry laws of Core.Canon.respects (without its law on square-root
   symbols, which no tensor-object theorem needs) *)
Record sym_respects (S : Scalar) (T : tmodel S) : Prop := {
  sr_upper : forall k n bks s, inner_sym k = Some s -> forall u1 a b u2 l,
      tv T k n bks (u1 ++ a :: b :: u2) l = kmul S (ksgn s) (tv T k n bks (u1 ++ b :: a :: u2) l);
  sr_lower : forall k n bks s, inner_sym k = Some s -> forall u l1 a b l2,
      tv T k n bks u (l1 ++ a :: b :: l2) = kmul S (ksgn s) (tv T k n bks u (l1 ++ b :: a :: l2));
  sr_bk_sym : forall k n u l, inner_sym k <> None -> length u = length l ->
      tv T k n 1%Z l u = tv T k n 1%Z u l;
  sr_bk_anti : forall k n u l, inner_sym k <> None -> length u = length l ->
      tv T k n (-1)%Z l u = kopp S (tv T k n (-1)%Z u l)
}.
Lemma respects_sym_respects S T : respects S T -> sym_respects S T.
Proof. intros R. constructor; [apply (resp_upper S T R)|apply (resp_lower S T R)|
  apply (resp_bk_sym S T R)|apply (resp_bk_anti S T R)]. Qed.

Section Sound.
Variable S : Scalar.
Variable T : tmodel S.
Notation "0" := (k0 S). Notation "1" := (k1 S).
Infix "+" := (kadd S). Infix "*" := (kmul S). Notation "- x" := (kopp S x).
Add Ring KR6 : (Kring S).

(* 2 is not a zero divisor (true in every field of characteristic <> 2) *)
Definition two_regular : Prop := forall x : K S, x + x = 0 -> x = 0.

Lemma PermPar_transport s p l l' : PermPar p l l' -> forall g, adj_sym S s g ->
  g l = ksgn (s && p) * g l'.
Proof. induction 1 as [|x l l' p H IH|x y l|p q l l' l'' H1 IH1 H2 IH2]; intros g Hg.
  - rewrite andb_false_r; simpl; ring.
  - apply (IH (fun m => g (x :: m))). intros l1 a b l2. apply (Hg (x :: l1)).
  - rewrite andb_true_r. apply (Hg []).
  - rewrite (IH1 g Hg), (IH2 g Hg). destruct s, p, q; simpl; ring. Qed.

Lemma dup_perm (l : list index) : ~ NoDup l -> exists a m, Permutation l (a :: a :: m).
Proof. induction l as [|x r IH]; intros H; [exfalso; apply H; constructor|].
  destruct (in_dec index_eq_dec x r) as [Hin|Hnin].
  - destruct (in_split _ _ Hin) as (l1 & l2 & ->). exists x, (l1 ++ l2).
    constructor. symmetry. apply Permutation_middle.
  - destruct IH as (a & m & HP).
    + intros Hnd. apply H. constructor; assumption.
    + exists a, (x :: m). rewrite HP. rewrite perm_swap. constructor. apply perm_swap. Qed.

Lemma antisym_dup_zero g l : two_regular -> adj_sym S true g -> ~ NoDup l -> g l = 0.
Proof. intros H2 Hg Hd. destruct (dup_perm l Hd) as (a & m & HP).
  destruct (Permutation_PermPar _ _ HP) as [p Hp].
  rewrite (PermPar_transport true p _ _ Hp g Hg).
  assert (Hz : g (a :: a :: m) = 0).
  { apply H2. pose proof (Hg [] a a m) as E. simpl in E.
    set (x := g (a :: a :: m)) in *. clearbody x.
    transitivity (x + (- (1)) * x); [f_equal; exact E|ring]. }
  rewrite Hz; ring. Qed.

Hypothesis R : sym_respects S T.

Lemma upper_adj k n bks s r l : inner_sym k = Some s ->
  adj_sym S s (fun x => tv T k n bks (map r x) (map r l)).
Proof. intros Ek l1 a b l2. rewrite !map_app; simpl. apply (sr_upper S T R k n bks s Ek). Qed.
Lemma lower_adj k n bks s r u : inner_sym k = Some s ->
  adj_sym S s (fun x => tv T k n bks (map r u) (map r x)).
Proof. intros Ek l1 a b l2. rewrite !map_app; simpl. apply (sr_lower S T R k n bks s Ek). Qed.

(* reordering the two index groups *)
Lemma tens_val_perm k n bks s p q u u' l l' r : inner_sym k = Some s ->
  PermPar p u u' -> PermPar q l l' ->
  tens_val S T r (Tens k n bks u l) = ksgn (s && xorb p q) * tens_val S T r (Tens k n bks u' l').
Proof. intros Ek Hp Hq. unfold tens_val; simpl.
  rewrite (PermPar_transport s p _ _ Hp _ (upper_adj k n bks s r l Ek)).
  rewrite (PermPar_transport s q _ _ Hq _ (lower_adj k n bks s r u' Ek)).
  destruct s, p, q; simpl; ring. Qed.

(* exchanging bra and ket *)
Lemma tens_val_braket k n bks u l r : inner_sym k <> None -> bks_valid bks = true ->
  length u = length l ->
  tens_val S T r (Tens k n bks u l) = ksgn (Z.eqb bks (-1)) * tens_val S T r (Tens k n bks l u).
Proof. intros Hk Hb Hlen. unfold tens_val; simpl.
  assert (Hl : length (map r l) = length (map r u)) by (rewrite !map_length; auto).
  unfold bks_valid in Hb. apply orb_true_iff in Hb. destruct Hb as [Hb|Hb]; apply Z.eqb_eq in Hb; subst bks; simpl.
  - rewrite (sr_bk_sym S T R k n _ _ Hk Hl). ring.
  - rewrite (sr_bk_anti S T R k n _ _ Hk Hl). ring. Qed.

(* a bra-ket antisymmetric tensor with identical bra and ket vanishes *)
Lemma braket_diag_zero_same k n u r : two_regular -> inner_sym k <> None ->
  tens_val S T r (Tens k n (-1)%Z u u) = 0.
Proof. intros H2 Hk. apply H2.
  pose proof (tens_val_braket k n (-1)%Z u u r Hk eq_refl eq_refl) as E. simpl in E.
  set (x := tens_val S T r (Tens k n (-1)%Z u u)) in *. clearbody x.
  transitivity (x + (- (1)) * x); [f_equal; exact E|ring]. Qed.

(* what a constructor result claims about the raw tensor *)
Definition tres_sound (r : env) (raw : tens) (res : tres) : Prop :=
  match res with
  | TOk neg t' => tens_val S T r raw = ksgn neg * tens_val S T r t'
  | TZero => two_regular -> tens_val S T r raw = 0
  | TErr => True
  end.

Lemma mk_anti_sound k n bks u l r : inner_sym k = Some true ->
  tres_sound r (Tens k n bks u l) (mk_anti k n bks u l).
Proof. intros Ek. unfold mk_anti.
  pose proof (bubble_spec u) as Hu. destruct (bubble u) as [u' nu| |] eqn:Eu.
  2:{ simpl. intros H2. unfold tens_val; simpl.
      apply (antisym_dup_zero (fun x => tv T k n bks (map r x) (map r l)) u H2 (upper_adj k n bks true r l Ek) Hu). }
  2:{ exact I. }
  pose proof (bubble_spec l) as Hl. destruct (bubble l) as [l' nl| |] eqn:El.
  2:{ simpl. intros H2. unfold tens_val; simpl.
      apply (antisym_dup_zero (fun x => tv T k n bks (map r u) (map r x)) l H2 (lower_adj k n bks true r u Ek) Hl). }
  2:{ exact I. }
  pose proof (tens_val_perm k n bks true _ _ _ _ _ _ r Ek (bubble_PermPar _ _ _ Eu) (bubble_PermPar _ _ _ El)) as H1.
  simpl in H1.
  destruct (Z.eqb bks 0); [simpl; rewrite Nat.odd_add; exact H1|].
  destruct (bks_valid bks) eqn:Eb; simpl; [|exact I].
  destruct (Nat.eqb (length u') (length l')) eqn:Elen; simpl; [|exact I]. apply Nat.eqb_eq in Elen.
  destruct (need_bra_ket_swap u' l'); simpl.
  - rewrite H1. rewrite (tens_val_braket k n bks u' l' r) by (auto; congruence).
    destruct (Z.eqb bks (-1)); rewrite !Nat.odd_add; simpl;
      destruct (Nat.odd nu), (Nat.odd nl); simpl; ring.
  - destruct (diag_zero bks u' l') eqn:Ed; simpl.
    + apply diag_zero_true in Ed. destruct Ed as [-> ->]. intros H2. rewrite H1.
      rewrite (braket_diag_zero_same k n l' r H2) by congruence. ring.
    + rewrite Nat.odd_add; exact H1. Qed.

Lemma mk_sym_sound k n bks u l r : inner_sym k = Some false ->
  tres_sound r (Tens k n bks u l) (mk_sym k n bks u l).
Proof. intros Ek. unfold mk_sym.
  destruct (Permutation_PermPar _ _ (ksort_perm idx_key u)) as [p Hp].
  destruct (Permutation_PermPar _ _ (ksort_perm idx_key l)) as [q Hq].
  pose proof (tens_val_perm k n bks false _ _ _ _ _ _ r Ek Hp Hq) as H1. simpl in H1.
  set (u' := ksort idx_key u) in *. set (l' := ksort idx_key l) in *.
  destruct (Z.eqb bks 0); [simpl; exact H1|].
  destruct (bks_valid bks) eqn:Eb; simpl; [|exact I].
  destruct (Nat.eqb (length u') (length l')) eqn:Elen; simpl; [|exact I]. apply Nat.eqb_eq in Elen.
  destruct (need_bra_ket_swap u' l'); simpl.
  - rewrite H1. rewrite (tens_val_braket k n bks u' l' r) by (auto; congruence). ring.
  - destruct (diag_zero bks u' l') eqn:Ed; simpl; [|exact H1].
    apply diag_zero_true in Ed. destruct Ed as [-> Ed]. rewrite Ed in *. intros H2. rewrite H1.
    rewrite (braket_diag_zero_same k n l' r H2) by congruence. ring. Qed.

Theorem mk_tensor_sound k n bks u l r :
  tres_sound r (Tens k n bks u l) (mk_tensor k n bks u l).
Proof. destruct k; simpl.
  - apply mk_anti_sound; reflexivity.
  - apply mk_sym_sound; reflexivity.
  - apply mk_anti_sound; reflexivity.
  - ring. Qed.

(* a bra-ket antisymmetric tensor whose bra and ket hold the same indices
   vanishes *)
Lemma braket_diag_zero k n u l r : two_regular -> inner_sym k <> None -> Permutation u l ->
  tens_val S T r (Tens k n (-1)%Z u l) = 0.
Proof. intros H2 Hk HP. assert (Ek : exists s, inner_sym k = Some s) by (destruct (inner_sym k) as [s|]; [exists s; reflexivity|congruence]). destruct Ek as [s Ek].
  destruct (Permutation_PermPar _ _ (Permutation_sym HP)) as [q Hq].
  rewrite (tens_val_perm k n (-1)%Z s false q u u l u r Ek (PermPar_refl u) Hq).
  rewrite (braket_diag_zero_same k n u r H2 Hk). ring. Qed.

End Sound.

(* ========================================================================= *)
(* 9. the canonical form is constant on orbits, with the prescribed sign      *)

Lemma bubble_PermPar_other p l1 l2 l' n : PermPar p l1 l2 -> bubble l1 = BOk l' n ->
  exists n2, bubble l2 = BOk l' n2 /\ Nat.odd n2 = xorb p (Nat.odd n).
Proof. intros Hp E. exists (inversions l2).
  split; [eapply bubble_perm; [eapply PermPar_Permutation; eauto|eauto]|].
  pose proof (bubble_spec l1) as H. rewrite E in H. destruct H as (_ & _ & -> & Hnd).
  apply PermPar_inversions; assumption. Qed.

Lemma bubble_pauli_perm l1 l2 : Permutation l1 l2 -> bubble l1 = BPauli -> bubble l2 = BPauli.
Proof. intros HP H. apply bubble_pauli_iff. apply bubble_pauli_iff in H. intros Hnd. apply H.
  eapply Permutation_NoDup; [symmetry; exact HP|exact Hnd]. Qed.

(* permuting the upper indices by a permutation of parity p and the lower
   ones by one of parity q multiplies the result by (-1)^(p+q) *)
Theorem mk_anti_orbit k n bks p q u1 u2 l1 l2 : PermPar p u1 u2 -> PermPar q l1 l2 ->
  mk_anti k n bks u2 l2 = tres_neg (xorb p q) (mk_anti k n bks u1 l1).
Proof. intros Hp Hq. unfold mk_anti.
  pose proof (bubble_never_out_of_fuel u1) as F1. pose proof (bubble_never_out_of_fuel l1) as F2.
  destruct (bubble u1) as [u' nu| |] eqn:Eu; [| |congruence].
  2:{ rewrite (bubble_pauli_perm _ _ (PermPar_Permutation _ _ _ Hp) Eu). reflexivity. }
  destruct (bubble_PermPar_other _ _ _ _ _ Hp Eu) as (nu2 & Eu2 & Hnu). rewrite Eu2.
  destruct (bubble l1) as [l' nl| |] eqn:El; [| |congruence].
  2:{ rewrite (bubble_pauli_perm _ _ (PermPar_Permutation _ _ _ Hq) El). reflexivity. }
  destruct (bubble_PermPar_other _ _ _ _ _ Hq El) as (nl2 & El2 & Hnl). rewrite El2.
  destruct (Z.eqb bks 0); [simpl; rewrite !Nat.odd_add, Hnu, Hnl;
    destruct p, q, (Nat.odd nu), (Nat.odd nl); reflexivity|].
  destruct (negb (bks_valid bks)); [reflexivity|].
  destruct (negb (Nat.eqb (length u') (length l'))); [reflexivity|].
  destruct (need_bra_ket_swap u' l'); simpl.
  - destruct (Z.eqb bks (-1)); rewrite !Nat.odd_add, Hnu, Hnl; simpl;
      destruct p, q, (Nat.odd nu), (Nat.odd nl); reflexivity.
  - destruct (diag_zero bks u' l'); [reflexivity|].
    rewrite !Nat.odd_add, Hnu, Hnl; destruct p, q, (Nat.odd nu), (Nat.odd nl); reflexivity. Qed.

Theorem mk_sym_orbit k n bks u1 u2 l1 l2 : Permutation u1 u2 -> Permutation l1 l2 ->
  mk_sym k n bks u2 l2 = mk_sym k n bks u1 l1.
Proof. intros Hu Hl. unfold mk_sym.
  rewrite (ksort_idx_perm_eq _ _ Hu), (ksort_idx_perm_eq _ _ Hl). reflexivity. Qed.

(* the same canonical tensor for every ordering (all kinds) *)
Corollary mk_tensor_orbit_same k n bks u1 u2 l1 l2 s t :
  Permutation u1 u2 -> Permutation l1 l2 -> k <> KNonSym ->
  mk_tensor k n bks u1 l1 = TOk s t -> exists s', mk_tensor k n bks u2 l2 = TOk s' t.
Proof. intros Hu Hl Hk E.
  destruct (Permutation_PermPar _ _ Hu) as [p Hp]. destruct (Permutation_PermPar _ _ Hl) as [q Hq].
  destruct k; simpl in *; try congruence.
  - rewrite (mk_anti_orbit _ _ _ _ _ _ _ _ _ Hp Hq), E. simpl. eauto.
  - rewrite (mk_sym_orbit _ _ _ _ _ _ _ Hu Hl), E. eauto.
  - rewrite (mk_anti_orbit _ _ _ _ _ _ _ _ _ Hp Hq), E. simpl. eauto. Qed.

(* adjacent transposition of two different upper indices flips the sign *)
Corollary mk_anti_transpose_upper k n bks u1 a b u2 l :
  mk_anti k n bks (u1 ++ b :: a :: u2) l = tres_neg true (mk_anti k n bks (u1 ++ a :: b :: u2) l).
Proof. apply (mk_anti_orbit k n bks true false); [|apply PermPar_refl].
  induction u1; simpl; constructor; auto. Qed.
Corollary mk_anti_transpose_lower k n bks u l1 a b l2 :
  mk_anti k n bks u (l1 ++ b :: a :: l2) = tres_neg true (mk_anti k n bks u (l1 ++ a :: b :: l2)).
Proof. apply (mk_anti_orbit k n bks false true); [apply PermPar_refl|].
  induction l1; simpl; constructor; auto. Qed.

(* zero exactly when an antisymmetric group holds a repeated index, or the
   tensor is bra-ket antisymmetric and bra and ket hold the same indices *)
Theorem mk_anti_zero_iff k n bks u l : mk_anti k n bks u l = TZero <->
  (~ NoDup u \/ ~ NoDup l \/ (bks = (-1)%Z /\ Permutation u l)).
Proof. unfold mk_anti. pose proof (bubble_spec u) as Hu. pose proof (bubble_spec l) as Hl.
  destruct (bubble u) as [u' nu| |]; [| |contradiction].
  2:{ split; auto. }
  destruct (bubble l) as [l' nl| |]; [| |contradiction].
  2:{ split; auto. }
  destruct Hu as (HPu & Hsu & _ & Hnu). destruct Hl as (HPl & Hsl & _ & Hnl).
  split.
  - intros H. right; right.
    destruct (Z.eqb bks 0); [discriminate|]. destruct (negb (bks_valid bks)); [discriminate|].
    destruct (negb (Nat.eqb (length u') (length l'))); [discriminate|].
    destruct (need_bra_ket_swap u' l'); [discriminate|].
    destruct (diag_zero bks u' l') eqn:Ed; [|discriminate].
    apply diag_zero_true in Ed. destruct Ed as [-> Ed]. split; [reflexivity|].
    rewrite HPu, HPl, Ed. reflexivity.
  - intros [H|[H|[-> HP]]]; try contradiction.
    assert (u' = l').
    { apply ssorted_unique; auto. rewrite <- HPu, <- HPl. exact HP. }
    subst l'. simpl. rewrite Nat.eqb_refl, need_swap_refl. simpl.
    unfold diag_zero. rewrite lidx_eqb_refl. reflexivity. Qed.

Theorem mk_sym_zero_iff k n bks u l : mk_sym k n bks u l = TZero <->
  (bks = (-1)%Z /\ Permutation u l).
Proof. unfold mk_sym.
  pose proof (ksort_perm idx_key u) as HPu. pose proof (ksort_perm idx_key l) as HPl.
  split.
  - destruct (Z.eqb bks 0); [discriminate|]. destruct (negb (bks_valid bks)); [discriminate|].
    destruct (negb (Nat.eqb _ _)); [discriminate|]. destruct (need_bra_ket_swap _ _); [discriminate|].
    destruct (diag_zero bks (ksort idx_key u) (ksort idx_key l)) eqn:Ed; [|discriminate].
    apply diag_zero_true in Ed. destruct Ed as [-> Ed]. intros _. split; [reflexivity|].
    rewrite HPu, HPl, Ed. reflexivity.
  - intros [-> HP]. rewrite (ksort_idx_perm_eq _ _ HP). simpl.
    rewrite Nat.eqb_refl, need_swap_refl. simpl. unfold diag_zero. rewrite lidx_eqb_refl. reflexivity. Qed.

(* ---- the bra-ket swap ---- *)
Lemma bks_valid_cases bks : bks_valid bks = true -> bks = 1%Z \/ bks = (-1)%Z.
Proof. unfold bks_valid. rewrite orb_true_iff, !Z.eqb_eq. tauto. Qed.

Lemma braket_eq_case u' l' : names_inj (u' ++ l') -> bk_cmp u' l' = Eq -> u' = l'.
Proof. intros Hinj E. apply bk_cmp_eq; [exact E|]. intros a b Ha Hb.
  apply Hinj; apply in_or_app; auto. Qed.

Theorem mk_anti_braket k n bks u l : bks_valid bks = true -> length u = length l ->
  names_inj (u ++ l) ->
  mk_anti k n bks l u = tres_neg (Z.eqb bks (-1)) (mk_anti k n bks u l).
Proof. intros Hb Hlen Hinj. unfold mk_anti.
  pose proof (bubble_spec u) as Hu. pose proof (bubble_spec l) as Hl.
  destruct (bubble u) as [u' nu| |] eqn:Eu; [| |contradiction].
  2:{ destruct (bubble l); [reflexivity|reflexivity|contradiction]. }
  destruct (bubble l) as [l' nl| |] eqn:El; [| |contradiction].
  2:{ reflexivity. }
  destruct Hu as (HPu & _ & _ & _). destruct Hl as (HPl & _ & _ & _).
  assert (Hlen' : length u' = length l').
  { rewrite <- (Permutation_length HPu), <- (Permutation_length HPl). exact Hlen. }
  assert (E0 : Z.eqb bks 0 = false) by (destruct (bks_valid_cases _ Hb); subst; reflexivity).
  rewrite E0, Hb. simpl. rewrite Hlen', Nat.eqb_refl. simpl.
  destruct (need_bra_ket_swap u' l') eqn:N1; destruct (need_bra_ket_swap l' u') eqn:N2.
  - rewrite (need_swap_asym _ _ N1) in N2. discriminate.
  - rewrite (swap_not_diag bks _ _ N1).
    destruct (Z.eqb bks (-1)); rewrite !Nat.odd_add; simpl;
      destruct (Nat.odd nu), (Nat.odd nl); reflexivity.
  - rewrite (swap_not_diag bks _ _ N2).
    destruct (Z.eqb bks (-1)); rewrite !Nat.odd_add; simpl;
      destruct (Nat.odd nu), (Nat.odd nl); reflexivity.
  - assert (u' = l').
    { apply braket_eq_case.
      - eapply names_inj_perm; [|exact Hinj]. apply Permutation_app; assumption.
      - unfold need_bra_ket_swap in N1, N2. rewrite (bk_cmp_antisym u' l') in N2.
        destruct (bk_cmp u' l'); simpl in *; congruence. }
    subst l'. unfold diag_zero. rewrite lidx_eqb_refl.
    destruct (bks_valid_cases _ Hb); subst bks; simpl; [|reflexivity].
    rewrite (Nat.add_comm nl nu). destruct (Nat.odd (nu + nl)); reflexivity. Qed.

Theorem mk_sym_braket k n bks u l : bks_valid bks = true -> length u = length l ->
  names_inj (u ++ l) ->
  mk_sym k n bks l u = tres_neg (Z.eqb bks (-1)) (mk_sym k n bks u l).
Proof. intros Hb Hlen Hinj. unfold mk_sym.
  pose proof (ksort_perm idx_key u) as HPu. pose proof (ksort_perm idx_key l) as HPl.
  set (u' := ksort idx_key u) in *. set (l' := ksort idx_key l) in *.
  assert (Hlen' : length u' = length l').
  { rewrite <- (Permutation_length HPu), <- (Permutation_length HPl). exact Hlen. }
  assert (E0 : Z.eqb bks 0 = false) by (destruct (bks_valid_cases _ Hb); subst; reflexivity).
  rewrite E0, Hb. simpl. rewrite Hlen', Nat.eqb_refl. simpl.
  destruct (need_bra_ket_swap u' l') eqn:N1; destruct (need_bra_ket_swap l' u') eqn:N2.
  - rewrite (need_swap_asym _ _ N1) in N2. discriminate.
  - rewrite (swap_not_diag bks _ _ N1). destruct (Z.eqb bks (-1)); reflexivity.
  - rewrite (swap_not_diag bks _ _ N2). destruct (Z.eqb bks (-1)); reflexivity.
  - assert (E : u' = l').
    { apply braket_eq_case.
      - eapply names_inj_perm; [|exact Hinj]. apply Permutation_app; assumption.
      - unfold need_bra_ket_swap in N1, N2. rewrite (bk_cmp_antisym u' l') in N2.
        destruct (bk_cmp u' l'); simpl in *; congruence. }
    rewrite E. unfold diag_zero. rewrite lidx_eqb_refl.
    destruct (bks_valid_cases _ Hb); subst bks; simpl; reflexivity. Qed.

(* ========================================================================= *)
(* 10. separation: equal canonical objects only for related index tuples      *)

Definition shape_ok (sorted : list index -> Prop) k n bks u l (t : tens) : Prop :=
  tkind t = k /\ tname t = n /\ tbks t = bks /\ sorted (tupper t) /\ sorted (tlower t) /\
  ((bks = 0%Z \/ (bks_valid bks = true /\ length (tupper t) = length (tlower t))) /\
   diag_zero bks (tupper t) (tlower t) = false) /\
  ((Permutation u (tupper t) /\ Permutation l (tlower t) /\
     need_bra_ket_swap (tupper t) (tlower t) = false) \/
   (bks_valid bks = true /\ Permutation u (tlower t) /\ Permutation l (tupper t) /\
     need_bra_ket_swap (tlower t) (tupper t) = true) \/
   (bks = 0%Z /\ Permutation u (tupper t) /\ Permutation l (tlower t))).

Lemma mk_anti_shape k n bks u l s t : mk_anti k n bks u l = TOk s t ->
  shape_ok ssorted k n bks u l t.
Proof. unfold mk_anti, shape_ok. pose proof (bubble_spec u) as Hu. pose proof (bubble_spec l) as Hl.
  destruct (bubble u) as [u' nu| |]; try discriminate.
  destruct (bubble l) as [l' nl| |]; try discriminate.
  destruct Hu as (HPu & Hsu & _ & _). destruct Hl as (HPl & Hsl & _ & _).
  destruct (Z.eqb bks 0) eqn:E0.
  { apply Z.eqb_eq in E0. intros H; inversion H; subst; simpl. repeat split; auto. }
  destruct (bks_valid bks) eqn:Eb; simpl; [|discriminate].
  destruct (Nat.eqb (length u') (length l')) eqn:El; simpl; [|discriminate]. apply Nat.eqb_eq in El.
  destruct (need_bra_ket_swap u' l') eqn:En.
  - intros H; inversion H; subst; simpl. repeat split; auto.
    + apply (swap_not_diag _ _ _ En).
    + right; left. repeat split; auto.
  - destruct (diag_zero bks u' l') eqn:Ed; [discriminate|].
    intros H; inversion H; subst; simpl. repeat split; auto. Qed.

Lemma mk_sym_shape k n bks u l s t : mk_sym k n bks u l = TOk s t ->
  shape_ok wsorted k n bks u l t.
Proof. unfold mk_sym, shape_ok.
  pose proof (ksort_perm idx_key u) as HPu. pose proof (ksort_perm idx_key l) as HPl.
  pose proof (ksort_idx_sorted u) as Hsu. pose proof (ksort_idx_sorted l) as Hsl.
  set (u' := ksort idx_key u) in *. set (l' := ksort idx_key l) in *.
  destruct (Z.eqb bks 0) eqn:E0.
  { apply Z.eqb_eq in E0. intros H; inversion H; subst; simpl. repeat split; auto. }
  destruct (bks_valid bks) eqn:Eb; simpl; [|discriminate].
  destruct (Nat.eqb (length u') (length l')) eqn:El; simpl; [|discriminate]. apply Nat.eqb_eq in El.
  destruct (need_bra_ket_swap u' l') eqn:En.
  - intros H; inversion H; subst; simpl. repeat split; auto.
    + apply (swap_not_diag _ _ _ En).
    + right; left. repeat split; auto.
  - destruct (diag_zero bks u' l') eqn:Ed; [discriminate|].
    intros H; inversion H; subst; simpl. repeat split; auto. Qed.

Lemma mk_tensor_shape k n bks u l s t : mk_tensor k n bks u l = TOk s t ->
  tkind t = k /\ tname t = n /\ tbks t = bks /\
  ((Permutation u (tupper t) /\ Permutation l (tlower t)) \/
   (bks <> 0%Z /\ k <> KNonSym /\ Permutation u (tlower t) /\ Permutation l (tupper t))).
Proof. assert (V : bks_valid bks = true -> bks <> 0%Z) by (intros H ->; discriminate).
  destruct k; simpl; intros H.
  - apply mk_anti_shape in H. destruct H as (?&?&?&_&_&_&[(?&?&_)|[(?&?&?&_)|(_&?&?)]]); repeat split; auto.
    right; repeat split; auto; discriminate.
  - apply mk_sym_shape in H. destruct H as (?&?&?&_&_&_&[(?&?&_)|[(?&?&?&_)|(_&?&?)]]); repeat split; auto.
    right; repeat split; auto; discriminate.
  - apply mk_anti_shape in H. destruct H as (?&?&?&_&_&_&[(?&?&_)|[(?&?&?&_)|(_&?&?)]]); repeat split; auto.
    right; repeat split; auto; discriminate.
  - inversion H; subst; simpl. repeat split; auto. Qed.

(* two constructions that yield the same canonical tensor come from the same
   class, name, bra-ket symmetry and from index tuples related by a permutation
   inside upper and inside lower, or (only with bra-ket symmetry) by the swap *)
Theorem mk_tensor_separates k1 n1 b1 u1 l1 s1 k2 n2 b2 u2 l2 s2 t :
  mk_tensor k1 n1 b1 u1 l1 = TOk s1 t -> mk_tensor k2 n2 b2 u2 l2 = TOk s2 t ->
  k1 = k2 /\ n1 = n2 /\ b1 = b2 /\
  ((Permutation u1 u2 /\ Permutation l1 l2) \/
   (b1 <> 0%Z /\ k1 <> KNonSym /\ Permutation u1 l2 /\ Permutation l1 u2)).
Proof. intros H1 H2. apply mk_tensor_shape in H1, H2.
  destruct H1 as (K1 & N1 & B1 & C1). destruct H2 as (K2 & N2 & B2 & C2).
  repeat split; try congruence.
  destruct C1 as [(Pu1 & Pl1)|(Z1 & Q1 & Pu1 & Pl1)]; destruct C2 as [(Pu2 & Pl2)|(Z2 & Q2 & Pu2 & Pl2)].
  - left; split; [rewrite Pu1, Pu2|rewrite Pl1, Pl2]; reflexivity.
  - right; repeat split; try congruence; [rewrite Pu1, Pl2|rewrite Pl1, Pu2]; reflexivity.
  - right; repeat split; auto; [rewrite Pu1, Pl2|rewrite Pl1, Pu2]; reflexivity.
  - left; split; [rewrite Pu1, Pu2|rewrite Pl1, Pl2]; reflexivity. Qed.

(* ========================================================================= *)
(* 11. re-canonicalising a canonical tensor returns it with sign +            *)


Lemma canonical_no_swap bks tu tl u l :
  (need_bra_ket_swap tu tl = false \/
   (bks_valid bks = true /\ Permutation u tl /\ Permutation l tu /\ need_bra_ket_swap tl tu = true) \/
   (bks = 0%Z /\ Permutation u tu /\ Permutation l tl)) ->
  bks <> 0%Z -> need_bra_ket_swap tu tl = false.
Proof. intros [H|[(_&_&_&H)|(H&_)]] Hz; [exact H|apply need_swap_asym; exact H|contradiction]. Qed.

Theorem mk_anti_idempotent k n bks u l s t : mk_anti k n bks u l = TOk s t ->
  mk_anti k n bks (tupper t) (tlower t) = TOk false t.
Proof. intros H. apply mk_anti_shape in H.
  destruct H as (K & Nm & B & Su & Sl & V & C). destruct t as [k' n' b' tu tl]; simpl in *; subst.
  unfold mk_anti. rewrite (bubble_sorted_id _ Su), (bubble_sorted_id _ Sl). simpl.
  destruct (Z.eqb bks 0) eqn:E0; [reflexivity|].
  destruct V as [[->|(Hb & Hlen)] Hd]; [discriminate|]. rewrite Hb, Hlen, Nat.eqb_refl. simpl.
  rewrite (canonical_no_swap bks tu tl u l), Hd; [reflexivity| |intros ->; discriminate].
  destruct C as [(_&_&C)|[C|C]]; auto. Qed.

Theorem mk_sym_idempotent k n bks u l s t : mk_sym k n bks u l = TOk s t ->
  mk_sym k n bks (tupper t) (tlower t) = TOk false t.
Proof. intros H. apply mk_sym_shape in H.
  destruct H as (K & Nm & B & Su & Sl & V & C). destruct t as [k' n' b' tu tl]; simpl in *; subst.
  unfold mk_sym. rewrite (ksort_idx_id _ Su), (ksort_idx_id _ Sl).
  destruct (Z.eqb bks 0) eqn:E0; [reflexivity|].
  destruct V as [[->|(Hb & Hlen)] Hd]; [discriminate|]. rewrite Hb, Hlen, Nat.eqb_refl. simpl.
  rewrite (canonical_no_swap bks tu tl u l), Hd; [reflexivity| |intros ->; discriminate].
  destruct C as [(_&_&C)|[C|C]]; auto. Qed.

Theorem mk_tensor_idempotent k n bks u l s t : mk_tensor k n bks u l = TOk s t ->
  mk_tensor k n bks (tupper t) (tlower t) = TOk false t.
Proof. destruct k; simpl; intros H.
  - eapply mk_anti_idempotent; eauto.
  - eapply mk_sym_idempotent; eauto.
  - eapply mk_anti_idempotent; eauto.
  - inversion H; subst; reflexivity. Qed.

(* ========================================================================= *)
(* 12. Kronecker delta                                                        *)

Lemma space_clash_sym a b : space_clash a b = space_clash b a.
Proof. destruct a, b; reflexivity. Qed.
Lemma spin_clash_sym a b : spin_clash a b = spin_clash b a.
Proof. destruct a, b; reflexivity. Qed.

Theorem delta_eval_symmetric i j : delta_eval j i = delta_eval i j.
Proof. unfold delta_eval. rewrite (index_eqb_sym j i), (space_clash_sym (ispace j)), (spin_clash_sym (ispin j)).
  destruct (index_eqb i j) eqn:E; [reflexivity|]. apply index_eqb_neq in E.
  destruct (space_clash _ _); [reflexivity|]. destruct (spin_clash _ _); [reflexivity|].
  destruct (idx_leb i j) eqn:E1, (idx_leb j i) eqn:E2; try reflexivity.
  - exfalso. apply E. apply idx_le_antisym; assumption.
  - apply idx_le_total in E1. unfold idx_le in E1. congruence. Qed.

Theorem delta_eval_one_iff i j : delta_eval i j = DOne <-> i = j.
Proof. unfold delta_eval. destruct (index_eqb i j) eqn:E.
  - apply index_eqb_eq in E. tauto.
  - apply index_eqb_neq in E. split; [|tauto].
    destruct (space_clash _ _); [discriminate|]. destruct (spin_clash _ _); [discriminate|].
    destruct (idx_leb i j); discriminate. Qed.

Theorem delta_eval_zero_iff i j : delta_eval i j = DZero <->
  (i <> j /\ (space_clash (ispace i) (ispace j) = true \/ spin_clash (ispin i) (ispin j) = true)).
Proof. unfold delta_eval. destruct (index_eqb i j) eqn:E.
  - apply index_eqb_eq in E. split; [discriminate|tauto].
  - apply index_eqb_neq in E.
    destruct (space_clash _ _); [tauto|]. destruct (spin_clash _ _); [tauto|].
    destruct (idx_leb i j); split; try discriminate; intros [_ [H|H]]; discriminate. Qed.

(* a delta that survives holds its two (different) arguments in canonical order *)
Theorem delta_eval_ordered i j a b : delta_eval i j = DDelta a b ->
  idx_lt a b /\ ((a = i /\ b = j) \/ (a = j /\ b = i)) /\
  space_clash (ispace a) (ispace b) = false /\ spin_clash (ispin a) (ispin b) = false.
Proof. unfold delta_eval. destruct (index_eqb i j) eqn:E; [discriminate|]. apply index_eqb_neq in E.
  destruct (space_clash (ispace i) (ispace j)) eqn:E1; [discriminate|].
  destruct (spin_clash (ispin i) (ispin j)) eqn:E2; [discriminate|].
  destruct (idx_leb i j) eqn:E3; intros H; inversion H; subst.
  - repeat split; auto. apply idx_leb_nlt in E3. destruct (idx_total a b) as [?|[?|?]]; tauto.
  - rewrite space_clash_sym, spin_clash_sym. repeat split; auto.
    apply idx_le_total in E3. apply idx_leb_nlt in E3. destruct (idx_total a b) as [?|[?|?]]; try tauto.
    congruence. Qed.

Theorem delta_eval_idempotent i j a b : delta_eval i j = DDelta a b -> delta_eval a b = DDelta a b.
Proof. intros H. destruct (delta_eval_ordered _ _ _ _ H) as (Hlt & _ & E1 & E2).
  unfold delta_eval. rewrite E1, E2.
  destruct (index_eqb a b) eqn:E; [apply index_eqb_eq in E; subst; exfalso; exact (idx_lt_irrefl _ Hlt)|].
  apply idx_lt_le in Hlt. unfold idx_le in Hlt. rewrite Hlt. reflexivity. Qed.

Lemma delta_pow_sgn e : delta_pow e = Z.sgn e.
Proof. unfold delta_pow. destruct e; reflexivity. Qed.

(* orbital ranges: occupied and virtual orbitals are disjoint, alpha and beta
   spin orbitals are disjoint *)
Definition rng_disjoint (rg : space -> spin -> list nat) : Prop :=
  (forall s1 s2 o, In o (rg Occ s1) -> In o (rg Virt s2) -> False) /\
  (forall p1 p2 o, In o (rg p1 Alpha) -> In o (rg p2 Beta) -> False).
Definition in_rng (rg : space -> spin -> list nat) (r : env) (i : index) : Prop :=
  In (r i) (rg (ispace i) (ispin i)).

Section DeltaSound.
Variable S : Scalar.
Notation "0" := (k0 S). Notation "1" := (k1 S).
Infix "*" := (kmul S).
Add Ring KR7 : (Kring S).

Lemma delta_val_sym r i j : delta_val S r i j = delta_val S r j i.
Proof. unfold delta_val. rewrite Nat.eqb_sym. reflexivity. Qed.

Theorem delta_eval_sound rg : rng_disjoint rg -> forall i j r, in_rng rg r i -> in_rng rg r j ->
  match delta_eval i j with
  | DOne => delta_val S r i j = 1
  | DZero => delta_val S r i j = 0
  | DDelta a b => delta_val S r i j = delta_val S r a b
  end.
Proof. intros [Hov Hab] i j r Hi Hj.
  destruct (delta_eval i j) as [| |a b] eqn:E.
  - apply delta_eval_one_iff in E; subst. unfold delta_val. rewrite Nat.eqb_refl. reflexivity.
  - apply delta_eval_zero_iff in E. destruct E as [_ E]. unfold delta_val, in_rng in *.
    destruct (Nat.eqb (r i) (r j)) eqn:En; [|reflexivity]. apply Nat.eqb_eq in En. rewrite <- En in Hj.
    exfalso. destruct E as [E|E].
    + destruct (ispace i), (ispace j); try discriminate; eauto.
    + destruct (ispin i), (ispin j); try discriminate; eauto.
  - apply delta_eval_ordered in E. destruct E as (_ & [[-> ->]|[-> ->]] & _); [reflexivity|apply delta_val_sym]. Qed.

(* powers of a delta: d^(n+1) = d *)
Theorem delta_pow_sound r i j m :
  kprod (repeat (delta_val S r i j) (Datatypes.S m)) = delta_val S r i j.
Proof. unfold delta_val. destruct (Nat.eqb (r i) (r j)); induction m as [|m IH]; simpl in *;
  try rewrite IH; ring. Qed.
End DeltaSound.

(* the standard orbital model: 8 spin orbitals, 0-3 occupied, even = alpha *)
Definition std_rng (sp : space) (s : spin) : list nat :=
  filter (fun o => (match sp with Gen => true | Occ => Nat.ltb o 4 | Virt => Nat.leb 4 o end) &&
                   (match s with NoSpin => true | Alpha => Nat.even o | Beta => Nat.odd o end))
         (seq 0 8).
Lemma std_rng_disjoint : rng_disjoint std_rng.
Proof. split.
  - intros s1 s2 o H1 H2. unfold std_rng in *. apply filter_In in H1, H2.
    destruct H1 as [_ H1], H2 as [_ H2]. apply andb_true_iff in H1, H2.
    destruct H1 as [H1 _], H2 as [H2 _]. apply Nat.ltb_lt in H1. apply Nat.leb_le in H2. lia.
  - intros p1 p2 o H1 H2. unfold std_rng in *. apply filter_In in H1, H2.
    destruct H1 as [_ H1], H2 as [_ H2]. apply andb_true_iff in H1, H2.
    destruct H1 as [_ H1], H2 as [_ H2]. rewrite <- Nat.negb_odd in H1. rewrite H2 in H1. discriminate. Qed.

Definition common_orb (i j : index) : nat :=
  (match ispace i, ispace j with Virt, _ | _, Virt => 4 | _, _ => 0 end) +
  (match ispin i, ispin j with Beta, _ | _, Beta => 1 | _, _ => 0 end).

(* a delta that is not evaluated is neither identically 0 nor identically 1:
   in the standard orbital model there are admissible assignments with equal
   and with different orbitals *)
Theorem delta_eval_not_forced i j a b : delta_eval i j = DDelta a b ->
  exists r1 r2, in_rng std_rng r1 i /\ in_rng std_rng r1 j /\ r1 i = r1 j /\
                in_rng std_rng r2 i /\ in_rng std_rng r2 j /\ r2 i <> r2 j.
Proof. intros H.
  assert (Hne : i <> j).
  { intros ->. assert (E : delta_eval j j = DOne) by (apply delta_eval_one_iff; reflexivity). congruence. }
  assert (Hz : delta_eval i j <> DZero) by congruence.
  rewrite delta_eval_zero_iff in Hz.
  assert (E1 : space_clash (ispace i) (ispace j) = false) by (destruct (space_clash _ _); [exfalso; apply Hz; auto|reflexivity]).
  assert (E2 : spin_clash (ispin i) (ispin j) = false) by (destruct (spin_clash _ _); [exfalso; apply Hz; auto|reflexivity]).
  exists (fun _ => common_orb i j), (upd (fun _ => common_orb i j) j (common_orb i j + 2)).
  unfold in_rng, upd, common_orb. rewrite index_eqb_refl.
  assert (En : index_eqb i j = false) by (apply index_eqb_neq; exact Hne). rewrite En.
  destruct (ispace i), (ispace j); try discriminate; destruct (ispin i), (ispin j); try discriminate;
    vm_compute; repeat split; try tauto; try discriminate; intuition lia. Qed.

(* ========================================================================= *)
(* 13. assumptions on expressions, one tensor at a time                       *)

Lemma strip_c_idem s : strip_c (strip_c s) = strip_c s.
Proof. induction s as [|c s IH]; simpl; [reflexivity|].
  destruct (Ascii.eqb c "c") eqn:E; [exact IH|]. simpl. rewrite E, IH. reflexivity. Qed.
Lemma real_name_idem s : real_name (real_name s) = real_name s.
Proof. destruct s; simpl; [reflexivity|]. rewrite strip_c_idem. reflexivity. Qed.

Lemma mk_tensor_attrs k n bks u l s t : mk_tensor k n bks u l = TOk s t ->
  tkind t = k /\ tname t = n /\ tbks t = bks.
Proof. intros H. apply mk_tensor_shape in H. tauto. Qed.

Theorem apply_braket_untouched syms antis t :
  smem (tname t) syms = false -> smem (tname t) antis = false ->
  apply_braket_obj syms antis t = TOk false t.
Proof. intros H1 H2. unfold apply_braket_obj. rewrite H1, H2. destruct (tkind t); reflexivity. Qed.

Lemma add_bra_ket_sym_attrs t b s t' : add_bra_ket_sym t b = TOk s t' ->
  tkind t' = tkind t /\ tname t' = tname t /\ tbks t' = b.
Proof. unfold add_bra_ket_sym. destruct (Z.eqb b (tbks t)) eqn:E.
  - apply Z.eqb_eq in E. intros H; inversion H; subst; auto.
  - destruct (Z.eqb (tbks t) 0); [|discriminate]. apply mk_tensor_attrs. Qed.

Definition braket_core (syms antis : list string) (t : tens) : tres :=
  if smem (tname t) syms && negb (Z.eqb (tbks t) 1) then add_bra_ket_sym t 1
  else if smem (tname t) antis && negb (Z.eqb (tbks t) (-1)) then add_bra_ket_sym t (-1)
  else TOk false t.
Lemma apply_braket_obj_eq syms antis t : apply_braket_obj syms antis t =
  match tkind t with KNonSym => TOk false t | _ => braket_core syms antis t end.
Proof. unfold apply_braket_obj, braket_core. destruct (tkind t); reflexivity. Qed.

Lemma braket_core_idem syms antis t s t' :
  (smem (tname t) syms && smem (tname t) antis = false) ->
  braket_core syms antis t = TOk s t' ->
  tkind t' = tkind t /\ braket_core syms antis t' = TOk false t'.
Proof. intros Hx. unfold braket_core at 1.
  destruct (smem (tname t) syms && negb (Z.eqb (tbks t) 1)) eqn:E1.
  { intros H. destruct (add_bra_ket_sym_attrs _ _ _ _ H) as (A1 & A2 & A3). split; [exact A1|].
    apply andb_true_iff in E1. destruct E1 as [E1 _]. rewrite E1 in Hx. simpl in Hx.
    unfold braket_core. rewrite A2, A3, E1, Hx. reflexivity. }
  destruct (smem (tname t) antis && negb (Z.eqb (tbks t) (-1))) eqn:E2.
  { intros H. destruct (add_bra_ket_sym_attrs _ _ _ _ H) as (A1 & A2 & A3). split; [exact A1|].
    apply andb_true_iff in E2. destruct E2 as [E2 _]. rewrite E2, andb_true_r in Hx.
    unfold braket_core. rewrite A2, A3, E2, Hx. reflexivity. }
  intros H; inversion H; subst. split; [reflexivity|]. unfold braket_core. rewrite E1, E2. reflexivity. Qed.

(* applying the declared bra-ket symmetries a second time changes nothing
   (a name must not be declared symmetric and antisymmetric at once: the code
   raises Inputerror then) *)
Theorem apply_braket_idempotent syms antis t s t' :
  (smem (tname t) syms && smem (tname t) antis = false) ->
  apply_braket_obj syms antis t = TOk s t' -> apply_braket_obj syms antis t' = TOk false t'.
Proof. intros Hx. rewrite !apply_braket_obj_eq.
  destruct (tkind t) eqn:Ek; intros H;
    try (destruct (braket_core_idem _ _ _ _ _ Hx H) as (A1 & A2); rewrite A1, Ek; exact A2).
  inversion H; subst. rewrite Ek. reflexivity. Qed.

Theorem make_real_idempotent t s t' : make_real_obj t = TOk s t' -> make_real_obj t' = TOk false t'.
Proof. unfold make_real_obj at 1. destruct (tkind t) eqn:Ek;
  try (destruct (is_t_amplitude (tname t)) eqn:Et;
   [destruct (String.eqb (real_name (tname t)) (tname t)) eqn:En;
     [intros H; inversion H; subst; unfold make_real_obj; rewrite Ek, Et, En; reflexivity
     |intros H; apply mk_tensor_attrs in H; destruct H as (A1 & A2 & A3);
      unfold make_real_obj; rewrite A1, A2, real_name_idem, String.eqb_refl;
      destruct (is_t_amplitude (real_name (tname t))); reflexivity]
   |intros H; inversion H; subst; unfold make_real_obj; rewrite Ek, Et; reflexivity]).
  intros H; inversion H; subst. unfold make_real_obj. rewrite Ek. reflexivity. Qed.

Section AssumeSound.
Variable S : Scalar.
Variable T : tmodel S.
Hypothesis R : sym_respects S T.
Notation "0" := (k0 S). Notation "1" := (k1 S).
Infix "*" := (kmul S).
Add Ring KR8 : (Kring S).

Lemma tres_sound_neg r raw s x c :
  (tens_val S T r raw = ksgn s * c) ->
  (match x with TOk s' t' => c = ksgn s' * tens_val S T r t' | TZero => two_regular S -> c = 0 | TErr => True end) ->
  tres_sound S T r raw (tres_neg s x).
Proof. intros H1 H2. destruct x as [| |s' t']; simpl in *; auto.
  - intros H. rewrite H1, (H2 H). ring.
  - rewrite H1, H2. destruct s, s'; simpl; ring. Qed.

(* the tensor stored without bra-ket symmetry (flag 0) has the same values as
   the one stored with the declared bra-ket symmetry b: the model satisfies the
   assumption (the latter is bra-ket (anti)symmetric by [sym_respects]) *)
Definition declared_as (name : string) (b : Z) : Prop :=
  forall k u l, tv T k name 0%Z u l = tv T k name b u l.

Theorem add_bra_ket_sym_sound r t b : declared_as (tname t) b ->
  tres_sound S T r t (add_bra_ket_sym t b).
Proof. intros Hf. unfold add_bra_ket_sym. destruct (Z.eqb b (tbks t)); [simpl; ring|].
  destruct (Z.eqb (tbks t) 0) eqn:E0; [|exact I]. apply Z.eqb_eq in E0.
  pose proof (mk_tensor_sound S T R (tkind t) (tname t) b (tupper t) (tlower t) r) as H.
  assert (E : tens_val S T r t = tens_val S T r (Tens (tkind t) (tname t) b (tupper t) (tlower t))).
  { unfold tens_val; simpl. rewrite E0. apply Hf. }
  destruct (mk_tensor _ _ _ _ _); simpl in *; auto; rewrite E; auto. Qed.

Theorem apply_braket_sound r syms antis t :
  (smem (tname t) syms = true -> declared_as (tname t) 1) ->
  (smem (tname t) antis = true -> declared_as (tname t) (-1)) ->
  tres_sound S T r t (apply_braket_obj syms antis t).
Proof. intros Hf Hg. unfold apply_braket_obj.
  assert (I0 : tres_sound S T r t (TOk false t)) by (simpl; ring).
  destruct (tkind t); auto;
  (destruct (smem (tname t) syms) eqn:E1; simpl;
   [destruct (negb (Z.eqb (tbks t) 1)); simpl; [apply add_bra_ket_sym_sound; auto|]|];
   (destruct (smem (tname t) antis) eqn:E2; simpl;
    [destruct (negb (Z.eqb (tbks t) (-1))); simpl; [apply add_bra_ket_sym_sound; auto|auto]|auto])). Qed.

(* real orbitals: the complex-conjugate amplitude has the same values as the
   amplitude itself *)
Theorem make_real_sound r t :
  (forall b u l, tv T KAmp (real_name (tname t)) b u l = tv T (tkind t) (tname t) b u l) ->
  tres_sound S T r t (make_real_obj t).
Proof. intros Hc. unfold make_real_obj.
  assert (I0 : tres_sound S T r t (TOk false t)) by (simpl; ring).
  destruct (tkind t) eqn:Ek; auto;
  (destruct (is_t_amplitude (tname t)); auto; destruct (String.eqb _ _); auto;
   pose proof (mk_tensor_sound S T R KAmp (real_name (tname t)) (tbks t) (tupper t) (tlower t) r) as H;
   assert (E : tens_val S T r t = tens_val S T r (Tens KAmp (real_name (tname t)) (tbks t) (tupper t) (tlower t)))
     by (unfold tens_val; simpl; rewrite Hc, Ek; reflexivity);
   destruct (mk_tensor _ _ _ _ _); simpl in *; auto; rewrite E; auto). Qed.
End AssumeSound.

(* ========================================================================= *)
(* 14. Expr(e, real=, sym_tensors=, antisym_tensors=) on one tensor           *)

Lemma braket_core_attrs syms antis t s t' : braket_core syms antis t = TOk s t' ->
  tkind t' = tkind t /\ tname t' = tname t /\
  smem (tname t) syms && negb (Z.eqb (tbks t') 1) = false /\
  (smem (tname t) syms && smem (tname t) antis = false ->
   smem (tname t) antis && negb (Z.eqb (tbks t') (-1)) = false).
Proof. unfold braket_core.
  destruct (smem (tname t) syms && negb (Z.eqb (tbks t) 1)) eqn:E1.
  { intros H. destruct (add_bra_ket_sym_attrs _ _ _ _ H) as (A1 & A2 & A3). repeat split; auto.
    - rewrite A3. apply andb_false_r.
    - intros Hx. apply andb_true_iff in E1. destruct E1 as [E1 _]. rewrite E1 in Hx. simpl in Hx.
      rewrite Hx. reflexivity. }
  destruct (smem (tname t) antis && negb (Z.eqb (tbks t) (-1))) eqn:E2.
  { intros H. destruct (add_bra_ket_sym_attrs _ _ _ _ H) as (A1 & A2 & A3). repeat split; auto.
    - intros. rewrite A3.
      apply andb_true_iff in E2. destruct E2 as [E2 _].
      destruct (smem (tname t) syms) eqn:E3; [|reflexivity].
      (* declared both symmetric and antisymmetric, bks = 1 before: add_bra_ket_sym raises *)
      simpl in E1. apply negb_false_iff in E1. apply Z.eqb_eq in E1.
      unfold add_bra_ket_sym in H. rewrite E1 in H. simpl in H. discriminate.
    - intros _. rewrite A3. apply andb_false_r. }
  intros H; inversion H; subst. repeat split; auto. Qed.

Lemma apply_braket_attrs syms antis t s t' : apply_braket_obj syms antis t = TOk s t' ->
  tkind t' = tkind t /\ tname t' = tname t.
Proof. rewrite apply_braket_obj_eq. destruct (tkind t) eqn:Ek; intros H;
  try (apply braket_core_attrs in H; destruct H as (A1 & A2 & _); rewrite A1; auto).
  inversion H; subst; auto. Qed.

Lemma make_real_cases t1 s2 t' : make_real_obj t1 = TOk s2 t' ->
  (t' = t1 /\ s2 = false) \/
  (tkind t1 <> KNonSym /\ tkind t' = KAmp /\ tname t' = real_name (tname t1) /\ tbks t' = tbks t1).
Proof. unfold make_real_obj.
  destruct (tkind t1) eqn:Ek; destruct (is_t_amplitude (tname t1));
    destruct (String.eqb (real_name (tname t1)) (tname t1)); intros H;
    try (inversion H; subst; left; split; reflexivity);
    right; apply mk_tensor_attrs in H; destruct H as (B1 & B2 & B3); repeat split; auto; discriminate. Qed.

(* whether make_real renames depends on class and name only *)
Lemma make_real_stable t2 t3 : tkind t3 = tkind t2 -> tname t3 = tname t2 ->
  make_real_obj t2 = TOk false t2 -> make_real_obj t3 = TOk false t3.
Proof. intros K N. unfold make_real_obj. rewrite K, N.
  destruct (tkind t2); try reflexivity;
  (destruct (is_t_amplitude (tname t2)); [|reflexivity];
   destruct (String.eqb (real_name (tname t2)) (tname t2)) eqn:E; [reflexivity|];
   intros H; apply mk_tensor_attrs in H; destruct H as (_ & H & _);
   rewrite <- H, String.eqb_refl in E; discriminate). Qed.

(* Applying the assumptions twice equals applying them once.  The only side
   condition: neither the name nor (real) its complex-conjugate-free form is
   declared symmetric and antisymmetric at once (the code raises then). *)
Theorem assume_idempotent (real : bool) syms antis t s t' :
  let syms' := if real then "f"%string :: "V"%string :: syms else syms in
  (forall m, m = tname t \/ m = real_name (tname t) -> smem m syms' && smem m antis = false) ->
  assume_obj real syms antis t = TOk s t' -> assume_obj real syms antis t' = TOk false t'.
Proof. intros syms' Hx. unfold assume_obj. fold syms'. destruct real.
  2:{ apply apply_braket_idempotent. apply Hx; left; reflexivity. }
  destruct (apply_braket_obj syms' antis t) as [| |s1 t1] eqn:E1; simpl; try discriminate.
  destruct (make_real_obj t1) as [| |s2 t2] eqn:E2; simpl; try discriminate.
  destruct (apply_braket_obj syms' antis t2) as [| |s3 t3] eqn:E3; simpl; try discriminate.
  intros H; inversion H; subst t3. clear H.
  destruct (apply_braket_attrs _ _ _ _ _ E1) as (K1 & N1).
  destruct (apply_braket_attrs _ _ _ _ _ E3) as (K3 & N3).
  assert (Hx2 : smem (tname t2) syms' && smem (tname t2) antis = false).
  { destruct (make_real_cases _ _ _ E2) as [[-> _]|(_ & _ & B2 & _)].
    - apply Hx; left; exact N1.
    - apply Hx; right. rewrite B2, N1. reflexivity. }
  pose proof (apply_braket_idempotent _ _ _ _ _ Hx2 E3) as I3.
  pose proof (make_real_idempotent _ _ _ E2) as I2.
  pose proof (make_real_stable t2 t' K3 N3 I2) as I2'.
  rewrite I3. simpl. rewrite I2'. simpl. rewrite I3. reflexivity. Qed.

Section AssumeSound2.
Variable S : Scalar.
Variable T : tmodel S.
Hypothesis R : sym_respects S T.
Infix "*" := (kmul S).
Add Ring KR9 : (Kring S).

Lemma tres_bind_sound r t x f :
  tres_sound S T r t x -> (forall s t1, x = TOk s t1 -> tres_sound S T r t1 (f t1)) ->
  tres_sound S T r t (tres_bind x f).
Proof. intros H1 H2. destruct x as [| |s t1]; simpl in *; auto.
  specialize (H2 s t1 eq_refl). destruct (f t1) as [| |s' t2]; simpl in *; auto.
  - intros H. rewrite H1, (H2 H). ring.
  - rewrite H1, H2. destruct s, s'; simpl; ring. Qed.

(* the tensor model satisfies the assumptions declared for the tensor t: the
   declared names (also after the cc-renaming) carry the declared bra-ket
   symmetry, a complex-conjugate amplitude has the values of the amplitude *)
Definition model_satisfies (real : bool) (syms antis : list string) (t : tens) : Prop :=
  let syms' := if real then "f"%string :: "V"%string :: syms else syms in
  (forall m, m = tname t \/ (real = true /\ m = real_name (tname t)) ->
     (smem m syms' = true -> declared_as S T m 1) /\
     (smem m antis = true -> declared_as S T m (-1))) /\
  (real = true -> forall k b u l, tv T KAmp (real_name (tname t)) b u l = tv T k (tname t) b u l).

(* value preservation in every model that satisfies the assumptions *)
Theorem assume_sound r (real : bool) syms antis t :
  model_satisfies real syms antis t -> tres_sound S T r t (assume_obj real syms antis t).
Proof. intros [Hd Hc]. unfold assume_obj.
  set (syms' := if real then "f"%string :: "V"%string :: syms else syms) in *.
  assert (H1 : tres_sound S T r t (apply_braket_obj syms' antis t)).
  { apply (apply_braket_sound S T R); apply Hd; left; reflexivity. }
  destruct real; [|exact H1].
  apply tres_bind_sound.
  - apply tres_bind_sound; [exact H1|]. intros s t1 E.
    destruct (apply_braket_attrs _ _ _ _ _ E) as (K1 & N1).
    apply (make_real_sound S T R). rewrite N1. intros; apply Hc; reflexivity.
  - intros s t2 E. unfold tres_bind in E.
    destruct (apply_braket_obj syms' antis t) as [| |s1 t1] eqn:E1; try discriminate.
    destruct (make_real_obj t1) as [| |s2 t2'] eqn:E2; simpl in E; try discriminate.
    inversion E; subst t2'. destruct (apply_braket_attrs _ _ _ _ _ E1) as (K1 & N1).
    apply (apply_braket_sound S T R);
      (destruct (make_real_cases _ _ _ E2) as [[-> _]|(_ & _ & B2 & _)];
       [rewrite N1; apply Hd; left; reflexivity
       |rewrite B2, N1; apply Hd; right; split; reflexivity]). Qed.
End AssumeSound2.

(* ========================================================================= *)
(* 15. where the full statement fails: witnesses                              *)

Definition ix_i := Idx Occ NoSpin 105 0 0.
Definition ix_j := Idx Occ NoSpin 106 0 0.
Definition ix_a := Idx Virt NoSpin 97 0 0.

(* bra-ket ANTIsymmetric tensor with the same indices in bra and ket: every
   ordering is returned as zero (it was +T^{ij}_{ij} before the repair
   2521687), and zero is its value in every model *)
Theorem mk_tensor_braket_diag_zero : forall k n u l, k <> KNonSym -> Permutation u l ->
  mk_tensor k n (-1) u l = TZero /\
  (forall S T, sym_respects S T -> two_regular S -> forall r,
      tens_val S T r (Tens k n (-1) u l) = k0 S).
Proof. intros k n u l Hk HP. split.
  - destruct k; simpl; try congruence.
    + apply mk_anti_zero_iff. right; right; auto.
    + apply mk_sym_zero_iff. auto.
    + apply mk_anti_zero_iff. right; right; auto.
  - intros S T R H2 r. apply (braket_diag_zero S T R); auto.
    destruct k; simpl; congruence. Qed.

Example braket_diag_zero_example :
  mk_tensor KAnti "T" (-1) [ix_i; ix_j] [ix_i; ix_j] = TZero /\
  mk_tensor KAnti "T" (-1) [ix_j; ix_i] [ix_i; ix_j] = TZero /\
  mk_tensor KSym "T" (-1) [ix_i; ix_a] [ix_a; ix_i] = TZero /\
  mk_tensor KAnti "T" 1 [ix_i; ix_j] [ix_i; ix_j] =
    TOk false (Tens KAnti "T" 1 [ix_i; ix_j] [ix_i; ix_j]).
Proof. repeat split; vm_compute; reflexivity. Qed.

(* two different dummies with the same name (only their hash differs):
   _need_bra_ket_swap does not look at the hash, so the two bra-ket related
   orderings stay different objects *)
Theorem braket_same_name_refuted :
  exists k n u l, NoDup (u ++ l) /\ length u = length l /\
    mk_tensor k n 1 l u <> tres_neg false (mk_tensor k n 1 u l).
Proof. exists KAnti, "d"%string, [Idx Occ NoSpin 105 0 1], [Idx Occ NoSpin 105 0 2].
  split; [repeat constructor; simpl; intuition discriminate|]. split; [reflexivity|].
  vm_compute. discriminate. Qed.

(* Expr(t1cc^a_i, real=True, sym_tensors=["t1"]): the renamed amplitude gets
   the declared symmetry (repair ca056bd), and applying the same assumptions
   again changes nothing *)
Example assume_cc_example :
  let t' := Tens KAmp "t1" 1 [ix_i] [ix_a] in
  assume_obj true ["t1"%string] [] (Tens KAmp "t1cc" 0 [ix_a] [ix_i]) = TOk false t' /\
  assume_obj true ["t1"%string] [] t' = TOk false t'.
Proof. split; vm_compute; reflexivity. Qed.

(* ========================================================================= *)
(* 16. the hypotheses are satisfiable: rationals, a non-trivial model         *)

From Coq Require Import QArith Qcanon.

Definition QcScalar : Scalar.
Proof. refine {| K := Qc; k0 := 0%Qc; k1 := 1%Qc; kadd := Qcplus; kmul := Qcmult;
                 ksub := Qcminus; kopp := Qcopp; kinv := Qcinv; ofQ := Q2Qc; Kring := Qcrt |}.
  - intros a b H. apply Q2Qc_eq_iff. exact H.
  - reflexivity.
  - reflexivity.
  - intros a b. unfold Qcplus. apply Q2Qc_eq_iff. simpl. rewrite !Qred_correct. reflexivity.
  - intros a b. unfold Qcmult. apply Q2Qc_eq_iff. simpl. rewrite !Qred_correct. reflexivity.
  - intros x. destruct (Qc_eq_dec x 0%Qc) as [->|Hx]; [reflexivity|]. field. split; [exact Hx|]. intros E. apply Hx. rewrite <- (Qcopp_involutive x), E. reflexivity.
Defined.

Lemma Qc_two_regular : two_regular QcScalar.
Proof. intros x H. simpl in *. assert (E : (x * (1 + 1) = 0)%Qc) by (rewrite <- H; ring).
  apply Qcmult_integral in E. destruct E as [E|E]; [exact E|discriminate]. Qed.

(* rank (1,1) objects are matrices with the declared bra-ket symmetry, all
   other ranks vanish *)
Definition ex_tv (k : kind) (n : string) (bks : Z) (u l : list nat) : Qc :=
  match u, l with
  | [a], [b] =>
    let x := Q2Qc (Z.of_nat a # 1) in let y := Q2Qc (Z.of_nat b # 1) in
    if Z.eqb bks (-1) then (x - y)%Qc else (x + y)%Qc
  | _, _ => 0%Qc
  end.
Definition ex_model : tmodel QcScalar :=
  @Build_tmodel QcScalar std_rng ex_tv (fun _ => 1%Qc) (fun _ => 0%Qc).

Lemma ex_model_respects : sym_respects QcScalar ex_model.
Proof. constructor; simpl.
  - intros k n bks s _ u1 a b u2 l. unfold ex_tv.
    destruct u1 as [|x [|y u1]]; simpl; destruct s; simpl; ring.
  - intros k n bks s _ u l1 a b l2. unfold ex_tv.
    destruct u as [|x [|y u]]; simpl; try (destruct s; simpl; ring);
    destruct l1 as [|z [|w l1]]; simpl; destruct s; simpl; ring.
  - intros k n u l _ _. unfold ex_tv.
    destruct u as [|x [|y u]]; destruct l as [|z [|w l]]; simpl; try reflexivity. ring.
  - intros k n u l _ _. unfold ex_tv.
    destruct u as [|x [|y u]]; destruct l as [|z [|w l]]; simpl; try reflexivity; ring. Qed.

(* the model is not trivial: f^{1}_{2} with bra-ket symmetry has the value 3 *)
Example ex_model_nontrivial :
  tens_val QcScalar ex_model (fun i => if index_eqb i ix_i then 1 else 2)%nat
           (Tens KAnti "f" 1 [ix_i] [ix_a]) = Q2Qc 3.
Proof. apply Qc_is_canon. reflexivity. Qed.

(* all hypotheses of the soundness theorems hold together *)
Example C06_hypotheses_satisfiable :
  sym_respects QcScalar ex_model /\ two_regular QcScalar /\ rng_disjoint (rng ex_model) /\
  declared_as QcScalar ex_model "f" 1.
Proof. split; [apply ex_model_respects|]. split; [apply Qc_two_regular|]. split; [apply std_rng_disjoint|].
  intros k u l. reflexivity. Qed.
