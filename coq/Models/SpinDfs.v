(* C15 - _has_valid_combination and allowed_spin_blocks(expr, target) *)
From Coq Require Import ZArith NArith QArith List Bool Lia Permutation.
From ADC Require Import Core.Scalar Core.Index Core.Expr Models.Spin Models.SpinProofs.
Import ListNotations.
Open Scope nat_scope.
Open Scope list_scope.

(* the inner loop of hvc with the recursive call as a continuation *)
Fixpoint hvc_loop (k : smap -> option smap) (v : smap) (l : list smap) : option smap :=
  match l with
  | [] => None
  | m :: l' => if contra m v then hvc_loop k v l'
               else match k (sunion v m) with Some r => Some r | None => hvc_loop k v l' end
  end.
Definition hvc_k (rest : list (list smap)) (v' : smap) : option smap :=
  match rest with [] => Some v' | _ => hvc rest v' end.
Lemma hvc_unfold l rest v : hvc (l :: rest) v = hvc_loop (hvc_k rest) v l.
Proof. simpl. induction l as [|m l IH]; simpl; [reflexivity|].
  destruct (contra m v); [exact IH|]. unfold hvc_k at 1.
  destruct rest as [|l2 rest]; [reflexivity|]. rewrite IH. reflexivity. Qed.

Fixpoint ok_chain (v : smap) (ms : list smap) : Prop :=
  match ms with [] => True | m :: r => contra m v = false /\ ok_chain (sunion v m) r end.
Definition choice (ms : list smap) (ls : list (list smap)) : Prop := Forall2 (fun m l => In m l) ms ls.

Lemma hvc_loop_some k v l r : hvc_loop k v l = Some r ->
  exists m, In m l /\ contra m v = false /\ k (sunion v m) = Some r.
Proof. induction l as [|m l IH]; simpl; [discriminate|]. destruct (contra m v) eqn:Ec.
  - intros H. destruct (IH H) as [m' [H1 H2]]. exists m'; split; [right; auto|auto].
  - destruct (k (sunion v m)) as [r'|] eqn:Ek.
    + intros H; inversion H; subst. exists m. split; [left; auto|auto].
    + intros H. destruct (IH H) as [m' [H1 H2]]. exists m'; split; [right; auto|auto]. Qed.
Lemma hvc_loop_complete k v l m : In m l -> contra m v = false -> k (sunion v m) <> None ->
  hvc_loop k v l <> None.
Proof. induction l as [|m0 l IH]; simpl; [tauto|]. intros [->|Hin] Hc Hk.
  - rewrite Hc. destruct (k (sunion v m)); [discriminate|congruence].
  - destruct (contra m0 v); [auto|]. destruct (k (sunion v m0)); [discriminate|auto]. Qed.

(* _has_valid_combination succeeds iff one map can be chosen from every object such
   that no index gets two spins; the variant it leaves behind is their union *)
Theorem hvc_sound ls : forall v r, hvc ls v = Some r ->
  exists ms, choice ms ls /\ ok_chain v ms /\ r = fold_left sunion ms v.
Proof. induction ls as [|l rest IH]; intros v r H; [discriminate|].
  rewrite hvc_unfold in H. apply hvc_loop_some in H. destruct H as [m [Hm [Hc Hk]]].
  unfold hvc_k in Hk. destruct rest as [|l2 rest].
  - inversion Hk; subst. exists [m]. repeat split; auto. constructor; [auto|constructor].
  - destruct (IH _ _ Hk) as [ms [H1 [H2 H3]]]. exists (m :: ms). repeat split; auto.
    constructor; auto. Qed.
Theorem hvc_complete ls : forall v ms, ls <> [] -> choice ms ls -> ok_chain v ms -> hvc ls v <> None.
Proof. induction ls as [|l rest IH]; intros v ms Hne Hch Hok; [congruence|].
  inversion Hch as [|m ? ms' ? Hm Hch']; subst. destruct Hok as [Hc Hok].
  rewrite hvc_unfold. apply (hvc_loop_complete _ v l m Hm Hc). unfold hvc_k.
  destruct rest as [|l2 rest]; [discriminate|]. apply (IH _ ms'); [discriminate|auto|auto]. Qed.

Lemma iinter_sym a b : iinter a b = iinter b a.
Proof. destruct (iinter a b) eqn:E1, (iinter b a) eqn:E2; try reflexivity.
  - apply iinter_true in E1. destruct E1 as [x [H1 H2]]. rewrite iinter_false in E2. exfalso; eapply E2; eauto.
  - apply iinter_true in E2. destruct E2 as [x [H1 H2]]. rewrite iinter_false in E1. exfalso; eapply E1; eauto. Qed.
Lemma contra_sym m v : contra m v = contra v m.
Proof. unfold contra. rewrite (iinter_sym (sa m) (sb v)), (iinter_sym (sb m) (sa v)). apply orb_comm. Qed.

(* a consistent choice is the same thing as a common spin function *)
Lemma common_ok g : forall ms v, agrees v g -> Forall (fun m => agrees m g) ms -> ok_chain v ms.
Proof. induction ms as [|m ms IH]; intros v Hv Hms; simpl; [auto|].
  inversion Hms; subst. split; [eapply agrees_no_contra; eauto|].
  apply IH; [apply agrees_sunion; auto|auto]. Qed.
Lemma ok_common : forall ms v, (exists g, agrees v g) -> Forall (fun m => exists g, agrees m g) ms ->
  ok_chain v ms -> exists g, agrees v g /\ Forall (fun m => agrees m g) ms.
Proof. induction ms as [|m ms IH]; intros v [g0 Hv] Hms Hok; simpl in *.
  - exists g0; split; [auto|constructor].
  - inversion Hms as [|? ? [g1 Hm] Hms']; subst. destruct Hok as [Hc Hok].
    rewrite contra_sym in Hc. destruct (glue v m g0 g1 Hv Hm Hc) as [g [Hg _]].
    destruct (IH (sunion v m) (ex_intro _ g Hg) Hms' Hok) as [g' [Hg' Hall]].
    apply agrees_sunion_inv in Hg'. destruct Hg' as [Hv' Hm'].
    exists g'. split; [auto|constructor; auto]. Qed.

Lemma chain_iff_common ms v : (exists g, agrees v g) -> Forall (fun m => exists g, agrees m g) ms ->
  (ok_chain v ms <-> exists g, agrees v g /\ Forall (fun m => agrees m g) ms).
Proof. intros Hv Hms. split; [apply ok_common; auto|intros [g [H1 H2]]; eapply common_ok; eauto]. Qed.

(* ---------------------------------------------------------------- *)
(* a block that a term does not report admits no spin function         *)
(* ---------------------------------------------------------------- *)
Lemma tlookup_In (m : tmap) x s : tlookup m x = Some s -> In (x, s) m.
Proof. induction m as [|[y s'] m IH]; simpl; [discriminate|].
  destruct (index_eqb x y) eqn:E; [apply index_eqb_eq in E; subst; intros H; inversion H; auto|auto]. Qed.
Lemma In_tlookup (m : tmap) x s : In (x, s) m -> tlookup m x <> None.
Proof. induction m as [|[y s'] m IH]; simpl; [tauto|]. intros [H|H].
  - inversion H; subst. rewrite index_eqb_refl. discriminate.
  - destruct (index_eqb x y); [discriminate|auto]. Qed.

Lemma blk_map_agrees (g : index -> sp) zp : forall acc m, (forall s x, In (s, x) zp -> g x = s) ->
  (forall x s, In (x, s) acc -> g x = s) -> blk_map zp acc = Ok m ->
  (forall x s, In (x, s) m -> g x = s) /\ (forall s x, In (s, x) zp -> tlookup m x <> None) /\
  (forall x, tlookup acc x <> None -> tlookup m x <> None).
Proof. induction zp as [|[s x] zp IH]; intros acc m Hz Ha H; simpl in H.
  - inversion H; subst. repeat split; auto; try (intros ? ? []; fail).
  - assert (Hz' : forall s0 x0, In (s0, x0) zp -> g x0 = s0) by (intros; apply Hz; right; auto).
    destruct (tlookup acc x) as [s'|] eqn:El.
    + destruct (sp_eqb s s'); [|discriminate]. destruct (IH acc m Hz' Ha H) as [I1 [I2 I3]].
      repeat split; auto. intros s0 x0 [Hin|Hin]; [|eauto]. inversion Hin; subst. apply I3. congruence.
    + assert (Ha' : forall x0 s0, In (x0, s0) (acc ++ [(x, s)]) -> g x0 = s0).
      { intros x0 s0 Hin. apply in_app_or in Hin. destruct Hin as [Hin|[Hin|[]]]; [auto|].
        inversion Hin; subst. apply Hz; left; auto. }
      destruct (IH _ m Hz' Ha' H) as [I1 [I2 I3]]. repeat split; auto.
      * intros s0 x0 [Hin|Hin]; [|eauto]. inversion Hin; subst. apply I3.
        apply (In_tlookup _ x0 s0). apply in_or_app; right; left; auto.
      * intros x0 Hx0. apply I3. destruct (tlookup acc x0) as [s0|] eqn:E0; [|congruence].
        apply (In_tlookup _ x0 s0). apply in_or_app; left. apply tlookup_In; auto. Qed.

Lemma obj_idx_maps_spec tb ix l : obj_idx_maps tb ix = Ok l ->
  forall bl m, In bl tb -> blk_map (combine bl ix) [] = Ok m -> In m l.
Proof. revert l; induction tb as [|b tb IH]; intros l H bl m Hin Hm; simpl in H; [contradiction|].
  destruct (obj_idx_maps tb ix) as [l'|c]; simpl in H; [|discriminate]. inversion H; subst; clear H.
  destruct Hin as [->|Hin].
  - rewrite Hm. left; reflexivity.
  - specialize (IH l' eq_refl bl m Hin Hm). destruct (blk_map (combine b ix) []); [right|]; auto. Qed.

(* a block read off a spin function never gives an index two spins *)
Lemma blk_map_total (g : index -> sp) zp : forall acc, (forall s x, In (s, x) zp -> g x = s) ->
  (forall x s, In (x, s) acc -> g x = s) -> exists m, blk_map zp acc = Ok m.
Proof. induction zp as [|[s x] zp IH]; intros acc Hz Ha; simpl; [eexists; reflexivity|].
  assert (Hz' : forall s0 x0, In (s0, x0) zp -> g x0 = s0) by (intros; apply Hz; right; auto).
  destruct (tlookup acc x) as [s'|] eqn:El.
  - apply tlookup_In in El. rewrite <- (Ha x s' El), (Hz s x (or_introl eq_refl)).
    assert (E : sp_eqb s s = true) by (apply sp_eqb_eq; reflexivity). rewrite E. apply IH; auto.
  - apply IH; [auto|]. intros x0 s0 Hin. apply in_app_or in Hin. destruct Hin as [Hin|[Hin|[]]]; [auto|].
    inversion Hin; subst. apply Hz; left; auto. Qed.

Lemma smap_of_agrees m g : (forall x s, In (x, s) m -> g x = s) -> agrees (smap_of m) g.
Proof. intros H. unfold smap_of. split; simpl; intros x Hx; apply in_map_iff in Hx;
    destruct Hx as [[y s] [<- Hin]]; apply filter_In in Hin; destruct Hin as [Hin Hs];
    apply sp_eqb_eq in Hs; simpl in *; subst; apply H; auto. Qed.

Lemma term_idx_maps_spec tgt objs ims : term_idx_maps tgt objs = Ok ims ->
  forall lm, In lm ims -> exists ix tb, In (ix, Some tb) objs /\ obj_idx_maps tb ix = Ok (fst lm).
Proof. revert ims; induction objs as [|[ix [tb|]] r IH]; intros ims H lm Hin; simpl in H.
  - inversion H; subst. contradiction.
  - destruct (obj_idx_maps tb ix) as [l|c] eqn:E; simpl in H; [|discriminate].
    destruct (term_idx_maps tgt r) as [ls|c]; simpl in H; [|discriminate].
    inversion H; subst. destruct Hin as [<-|Hin].
    + exists ix, tb. split; [left; auto|auto].
    + destruct (IH ls eq_refl lm Hin) as [ix' [tb' [H1 H2]]]. exists ix', tb'. split; [right; auto|auto].
  - destruct (IH ims H lm Hin) as [ix' [tb' [H1 H2]]]. exists ix', tb'. split; [right; auto|auto]. Qed.

Lemma ins_desc_In {A} (x : A * nat) l y : In y (ins_desc x l) <-> y = x \/ In y l.
Proof. induction l as [|z l IH]; simpl; [intuition|]. destruct (Nat.ltb (snd z) (snd x)); simpl; [intuition|].
  rewrite IH. intuition. Qed.
Lemma sort_desc_In {A} (l : list (A * nat)) y : In y (sort_desc l) <-> In y l.
Proof. unfold sort_desc. induction l as [|x l IH]; simpl; [tauto|]. rewrite ins_desc_In, IH. intuition. Qed.

Lemma relevant_spec tsp ims : match relevant tsp ims with
  | None => exists lm, In lm ims /\ map smap_of (filter (tm_compat tsp) (fst lm)) = []
  | Some ls => Forall2 (fun lm rl => rl = map smap_of (filter (tm_compat tsp) (fst lm))) ims ls end.
Proof. induction ims as [|[l n] ims IH]; simpl; [constructor|].
  destruct (map smap_of (filter (tm_compat tsp) l)) as [|m0 rl] eqn:E.
  - exists (l, n). split; [left; auto|exact E].
  - destruct (relevant tsp ims) as [ls|].
    + constructor; [simpl; auto|exact IH].
    + destruct IH as [lm [H1 H2]]. exists lm. split; [right; auto|auto]. Qed.

Lemma target_spin_spec zp : forall acc tsp, target_spin zp acc = Ok tsp ->
  forall x s, In (x, s) tsp -> In (x, s) acc \/ In (s, x) zp.
Proof. induction zp as [|[s0 x0] zp IH]; intros acc tsp H x s Hin; simpl in H.
  - inversion H; subst; auto.
  - destruct (tlookup acc x0); [discriminate|]. destruct (IH _ _ H x s Hin) as [H1|H1]; [|right; right; auto].
    apply in_app_or in H1. destruct H1 as [H1|[H1|[]]]; [auto|]. inversion H1; subst. right; left; auto. Qed.

Definition block_fun_ok (objs : list sobj) (bl : block) (tgt : list index) (g : index -> sp) : Prop :=
  (forall s x, In (s, x) (combine bl tgt) -> g x = s) /\
  (forall ix tb, In (ix, Some tb) objs -> In (map g ix) tb).

Theorem term_block_false tgt tidx objs ims bl :
  term_idx_maps tgt objs = Ok ims ->
  term_block tgt tidx (sort_desc ims) bl = Ok false ->
  forall g, ~ block_fun_ok objs bl tgt g.
Proof. intros Hims H g [Hg1 Hg2]. unfold term_block in H.
  destruct (target_spin (combine bl tgt) []) as [tsp|c] eqn:Et; simpl in H; [|discriminate].
  assert (Htsp : forall x s, tlookup tsp x = Some s -> g x = s).
  { intros x s Hl. apply tlookup_In in Hl. destruct (target_spin_spec _ _ _ Et x s Hl) as [[]|Hin]. auto. }
  (* every object offers a map that agrees with g *)
  assert (Hoffer : forall lm, In lm (sort_desc ims) ->
            exists m, In m (map smap_of (filter (tm_compat tsp) (fst lm))) /\ agrees m g).
  { intros lm Hlm. apply (proj1 (sort_desc_In ims lm)) in Hlm.
    destruct (term_idx_maps_spec tgt objs ims Hims lm Hlm) as [ix [tb [Hin Hm]]].
    pose proof (Hg2 ix tb Hin) as Hbl.
    assert (Hex : exists m, In m (fst lm) /\ blk_map (combine (map g ix) ix) [] = Ok m).
    { destruct (blk_map_total g (combine (map g ix) ix) []) as [m Hm'].
      - intros s x Hsx. symmetry. apply (in_combine_map g ix x s Hsx).
      - intros ? ? [].
      - exists m. split; [|exact Hm']. eapply obj_idx_maps_spec; eauto. }
    destruct Hex as [m [Hm1 Hm2]].
    destruct (blk_map_agrees g (combine (map g ix) ix) [] m) as [I1 _]; [|intros ? ? []|exact Hm2|].
    { intros s x Hsx. symmetry. apply (in_combine_map g ix x s Hsx). }
    exists (smap_of m). split; [|apply smap_of_agrees; auto].
    apply in_map. apply filter_In. split; [auto|]. unfold tm_compat. apply forallb_forall.
    intros [x s] Hxs. simpl. destruct (tlookup m x) as [s'|] eqn:El; [|reflexivity].
    apply sp_eqb_eq. apply tlookup_In in El. rewrite <- (I1 x s' El). apply Htsp.
    (* (x, s) in tsp and tsp has unique keys by construction: use In -> value via g *)
    destruct (tlookup tsp x) as [s2|] eqn:E2.
    - f_equal. destruct (target_spin_spec _ _ _ Et x s Hxs) as [[]|H1].
      apply tlookup_In in E2. destruct (target_spin_spec _ _ _ Et x s2 E2) as [[]|H2].
      rewrite <- (Hg1 s x H1), <- (Hg1 s2 x H2). reflexivity.
    - exfalso. apply (In_tlookup tsp x s Hxs). exact E2. }
  pose proof (relevant_spec tsp (sort_desc ims)) as Hrel.
  destruct (relevant tsp (sort_desc ims)) as [ls|].
  - destruct ls as [|l0 ls0] eqn:Els; [discriminate|]. rewrite <- Els in *.
    assert (Hch : exists ms, choice ms ls /\ Forall (fun m => agrees m g) ms).
    { clear - Hrel Hoffer. induction Hrel as [|lm rl ims' ls' Hr Hrel IH].
      - exists []. split; constructor.
      - destruct (Hoffer lm (or_introl eq_refl)) as [m [Hm Ha]].
        destruct IH as [ms [H1 H2]]; [intros; apply Hoffer; right; auto|].
        exists (m :: ms). split; [constructor; [subst; auto|auto]|constructor; auto]. }
    destruct Hch as [ms [Hch Hall]].
    assert (Hne : hvc ls sempty <> None).
    { apply (hvc_complete ls sempty ms); [rewrite Els; discriminate|auto|].
      apply (common_ok g); [split; intros x []|auto]. }
    rewrite Els in H. rewrite <- Els in H.
    destruct (hvc ls sempty) as [v|]; [|congruence].
    destruct (iset_eqb tidx (sa v ++ sb v)); discriminate.
  - destruct Hrel as [lm [H1 H2]]. destruct (Hoffer lm H1) as [m [Hm _]]. rewrite H2 in Hm. contradiction. Qed.

(* ---------------------------------------------------------------- *)
(* the loops over blocks and terms                                     *)
(* ---------------------------------------------------------------- *)
Lemma bmem_In b l : bmem b l = true <-> In b l.
Proof. unfold bmem. rewrite existsb_exists. split.
  - intros [x [H1 H2]]. apply block_eqb_eq in H2. subst; auto.
  - intros H. exists b. split; [auto|apply block_eqb_eq; reflexivity]. Qed.

Lemma term_loop_spec tgt tidx ims bls : forall allowed al, term_loop tgt tidx ims bls allowed = Ok al ->
  incl allowed al /\ forall bl, In bl bls -> ~ In bl al -> term_block tgt tidx ims bl = Ok false.
Proof. induction bls as [|b bls IH]; intros allowed al H; simpl in H.
  - inversion H; subst. split; [intros x; auto|intros ? []].
  - destruct (bmem b allowed) eqn:Eb.
    + destruct (IH _ _ H) as [I1 I2]. split; [auto|]. intros bl [<-|Hin] Hn; [|auto].
      exfalso. apply Hn, I1. apply bmem_In; auto.
    + destruct (term_block tgt tidx ims b) as [ok|c] eqn:Et; simpl in H; [|discriminate].
      destruct (IH _ _ H) as [I1 I2]. split.
      * intros x Hx. apply I1. destruct ok; [right; right; auto|auto].
      * intros bl [<-|Hin] Hn; [|auto]. destruct ok; [|exact Et].
        exfalso. apply Hn, I1. right; left; reflexivity. Qed.

Lemma expr_loop_spec it tgt bls e : forall allowed al, expr_loop it tgt bls e allowed = Ok al ->
  incl allowed al /\ forall atoms, In atoms e -> exists objs ims,
    sobjs_of it atoms = Ok objs /\ term_idx_maps tgt objs = Ok ims /\
    forall bl, In bl bls -> ~ In bl al -> term_block tgt (atoms_idx atoms) (sort_desc ims) bl = Ok false.
Proof. induction e as [|atoms e IH]; intros allowed al H; simpl in H.
  - inversion H; subst. split; [intros x; auto|intros ? []].
  - destruct (sobjs_of it atoms) as [objs|c] eqn:Eo; simpl in H; [|discriminate].
    destruct (term_idx_maps tgt objs) as [ims|c] eqn:Ei; simpl in H; [|discriminate].
    destruct (term_loop tgt (atoms_idx atoms) (sort_desc ims) bls allowed) as [al1|c] eqn:El; simpl in H; [|discriminate].
    destruct (term_loop_spec _ _ _ _ _ _ El) as [T1 T2]. destruct (IH _ _ H) as [I1 I2]. split.
    + intros x Hx; auto.
    + intros a [<-|Hin]; [|auto]. exists objs, ims. split; [auto|split; [auto|]].
      intros bl Hbl Hn. apply T2; [auto|]. intros Hc. apply Hn, I1; auto. Qed.

(* A spin block of the targets that allowed_spin_blocks(expr, target) does not report:
   for every term of the expression there is no assignment of spins to its indices
   that gives the targets the spins of the block and puts every object with a block
   table on an allowed block. *)
Theorem block_not_reported it tgt e L bl :
  expr_allowed_blocks it tgt e = Ok L -> length bl = length tgt -> ~ In bl L ->
  forall atoms, In atoms e -> exists objs, sobjs_of it atoms = Ok objs /\
    forall g, ~ block_fun_ok objs bl tgt g.
Proof. unfold expr_allowed_blocks. intros H Hlen Hn atoms Hin.
  destruct (expr_loop it tgt (all_blocks (length tgt)) e []) as [al|c] eqn:E; simpl in H; [|discriminate].
  inversion H; subst; clear H. destruct (expr_loop_spec _ _ _ _ _ _ E) as [_ I2].
  destruct (I2 atoms Hin) as [objs [ims [H1 [H2 H3]]]]. exists objs. split; [auto|].
  assert (Hbl : In bl (all_blocks (length tgt))) by (apply all_blocks_In; auto).
  apply (term_block_false tgt (atoms_idx atoms) objs ims bl H2). apply H3; [auto|].
  intros Hc. apply Hn. apply filter_In. split; [auto|apply bmem_In; auto]. Qed.
